import ActixModel.Proofs.H1Encode
import ActixModel.Proofs.Disp
/-
C02 — HTTP/1 responses: one per request, in order, self-framed, body-faithful.

Models: `Model/H1Encode.lean` (encoder decisions + transfer encodings + the conforming client's
body decoders), `Model/Disp.lean` (dispatcher event machine).  Every theorem is universally
quantified (all chunk lists, all sizes, all contexts, all accepted event lists); `decide` is used
only for the concrete `witness_*` counter-examples.
-/
namespace ActixModel.C02
open ActixModel.Util ActixModel.H1Encode ActixModel.Disp

/-! ## body framing: what the conforming client decodes is what the handler produced -/

/-- **C02_te_length_bytes**: under Content-Length framing the bytes put on the wire for any chunk
list are exactly the concatenation of the chunks cut to the declared size. -/
theorem C02_te_length_bytes (n : Nat) (chunks : List Bytes) :
    (teEncodeAll (.length n) chunks).2 = chunks.flatten.take n := by
  rw [teEncodeAll_length]

/-- **C02_te_length_short_fails**: `encode_eof` fails (⇒ the dispatcher returns `Err`, the
connection is torn down) exactly when the handler's body ends short of the declared size. -/
theorem C02_te_length_short_fails (n : Nat) (chunks : List Bytes) :
    teBody (.length n) chunks = none ↔ chunks.flatten.length < n := by
  simp only [teBody, teEncodeAll_length, teEncodeEof]
  generalize chunks.flatten = bs
  by_cases h : n - bs.length = 0
  · simp [h]; omega
  · simp [h]; omega

/-- **C02_te_length_roundtrip**: a sized body that is long enough is decoded by the client as
exactly the first `n` bytes the handler produced, and the client stops exactly at the end of it. -/
theorem C02_te_length_roundtrip (n : Nat) (chunks : List Bytes) (rest : Bytes)
    (h : n ≤ chunks.flatten.length) :
    ∃ wire, teBody (.length n) chunks = some wire ∧
      clientLength n (wire ++ rest) = some (chunks.flatten.take n, rest) := by
  refine ⟨chunks.flatten.take n, ?_, ?_⟩
  · simp only [teBody, teEncodeAll_length, teEncodeEof]
    generalize chunks.flatten = bs at h ⊢
    simp [Nat.sub_eq_zero_of_le h]
  · generalize chunks.flatten = bs at h ⊢
    have hl : (bs.take n).length = n := by rw [List.length_take]; exact Nat.min_eq_left h
    simp [clientLength, hl]

example : ∃ chunks : List Bytes, 3 ≤ chunks.flatten.length := ⟨[[1, 2], [], [3, 4]], by decide⟩

/-- **C02_te_chunked_roundtrip** (also the former finding F2, now fixed): for *every* chunk list —
including lists with empty chunks, which the dispatcher skips — the chunked wire image is decoded
by the client as exactly the concatenation of the chunks, and the client stops exactly at the end
of the message (`rest` is untouched: the next response starts there). -/
theorem C02_te_chunked_roundtrip (chunks : List Bytes) (rest : Bytes) :
    ∃ wire, teBody (.chunked false) chunks = some wire ∧
      clientChunked (wire ++ rest) = some (chunks.flatten, rest) := by
  refine ⟨((nonEmpty chunks).map encChunk).flatten ++ lastChunk, ?_, ?_⟩
  · simp [teBody, teEncodeAll_chunked, teEncodeEof]
  · unfold clientChunked
    have hl := nonEmpty_length_le chunks
    have := clientChunkedAux_all chunks
      ((((nonEmpty chunks).map encChunk).flatten ++ lastChunk ++ rest).length + 1) [] rest
      (by simp only [List.length_append]; omega)
    simpa using this

/-- **C02_failure_visible_length**: if a sized body fails or ends short, whatever prefix reached
the wire is not accepted by the client as a complete message. -/
theorem C02_failure_visible_length (n : Nat) (emitted : Bytes) (h : emitted.length < n) :
    clientLength n emitted = none := by
  simp [clientLength, h]

/-- **C02_failure_visible_chunked**: if a chunked body fails (error from the body stream before
its end), the chunks already on the wire — without the last-chunk — are never accepted by the
client as a complete message, for any chunk list. -/
theorem C02_failure_visible_chunked (chunks : List Bytes) :
    clientChunked (teEncodeAll (.chunked false) chunks).2 = none := by
  rw [teEncodeAll_chunked]
  exact clientChunkedAux_incomplete chunks _ _

/-! ## head rules (`encode_headers` + `MessageEncoder::encode`) as a decision table -/

/-- the response version is the request's version -/
theorem C02_head_version (ctx : EncCtx) (res : RespHead) (size : BodySize) :
    (headFacts ctx res size).version = ctx.version := rfl

/-- 204: neither Content-Length nor Transfer-Encoding (user supplied ones are dropped too) and no
body bytes whatever the body type says. -/
theorem C02_head_204 (ctx : EncCtx) (res : RespHead) (size : BodySize) (h : res.status = 204) :
    (headFacts ctx res size).len = .none ∧ (headFacts ctx res size).skipLen = true ∧
      (headFacts ctx res size).te = TE.empty := by
  simp [headFacts, lenHeader, lenRules, isInterimOr204, chooseTE, bodilessStatus, h]

/-- HEAD: no body bytes whatever the size. -/
theorem C02_head_head (ctx : EncCtx) (res : RespHead) (size : BodySize) (h : ctx.head = true) :
    (headFacts ctx res size).te = TE.empty := by
  simp [headFacts, chooseTE, h]

def plainStatus (s : Nat) : Prop := s ≠ 100 ∧ s ≠ 101 ∧ s ≠ 102 ∧ s ≠ 204 ∧ s ≠ 304

/-- sized body: `content-length: n`, user CL/TE dropped, exactly `n` body bytes. -/
theorem C02_head_sized (ctx : EncCtx) (res : RespHead) (n : Nat) (hs : plainStatus res.status)
    (hh : ctx.head = false) :
    (headFacts ctx res (.sized n)).len = .contentLength n ∧ (headFacts ctx res (.sized n)).skipLen = true ∧
      (headFacts ctx res (.sized n)).te = .length n := by
  obtain ⟨h1, h2, h3, h4, h5⟩ := hs
  refine ⟨?_, ?_, ?_⟩
  · simp [headFacts, lenHeader, lenRules, isInterimOr204, h1, h2, h3, h4, h5]
  · simp [headFacts, lenHeader, lenRules, isInterimOr204, h1, h2, h3, h4, h5]
  · cases n <;> simp [headFacts, chooseTE, bodilessStatus, hh, h4, TE.empty]

/-- stream body on HTTP/1.1: `transfer-encoding: chunked`, user CL/TE dropped, chunked coding. -/
theorem C02_head_stream_11 (ctx : EncCtx) (res : RespHead) (hs : plainStatus res.status)
    (hh : ctx.head = false) (hst : ctx.stream = false) (hv : ctx.version = .h11) (hc : res.chunked = true) :
    (headFacts ctx res .stream).len = .teChunked ∧ (headFacts ctx res .stream).skipLen = true ∧
      (headFacts ctx res .stream).te = .chunked false := by
  obtain ⟨h1, h2, h3, h4, h5⟩ := hs
  simp [headFacts, lenHeader, lenRules, isInterimOr204, chooseTE, bodilessStatus, h1, h2, h3, h4, h5, hh, hst, hv, hc]

/-- stream body on HTTP/1.0 (former suspicion S3, now fixed): no `transfer-encoding`, user CL/TE
dropped, raw bytes until the connection closes, and the connection is not kept alive. -/
theorem C02_head_stream_10 (ctx : EncCtx) (res : RespHead) (hs : plainStatus res.status)
    (hh : ctx.head = false) (hv : ctx.version = .h10) (hc : res.chunked = true) :
    (headFacts ctx res .stream).len = .none ∧ (headFacts ctx res .stream).skipLen = true ∧
      (headFacts ctx res .stream).te = .eof ∧ (headFacts ctx res .stream).connType = .close ∧
      (headFacts ctx res .stream).conn = .none := by
  obtain ⟨h1, h2, h3, h4, h5⟩ := hs
  simp [headFacts, lenHeader, lenRules, isInterimOr204, chooseTE, bodilessStatus, respConnType, http10Stream,
    connHeader, h1, h2, h3, h4, h5, hh, hv, hc]

/-- the `connection` header is a function of (request version, effective connection type) only -/
theorem C02_head_conn (ctx : EncCtx) (res : RespHead) (size : BodySize) :
    (headFacts ctx res size).conn =
      match respConnType ctx res size, ctx.version with
      | .upgrade, _ => .upgrade
      | .keepAlive, .h10 => .keepAlive
      | .keepAlive, .h11 => .none
      | .close, .h11 => .close
      | .close, .h10 => .none := by
  simp only [headFacts, connHeader]
  cases respConnType ctx res size <;> cases ctx.version <;> rfl

/-- user supplied `connection` headers never reach the wire; user `content-length` /
`transfer-encoding` do not either whenever the encoder writes its own framing header. -/
theorem C02_user_framing_skipped (hs : List (Bytes × Bytes)) (l : Bytes × Bytes)
    (h : l ∈ hs.filter (keepUser true)) : isConnection l.1 = false ∧ isLenName l.1 = false := by
  have := (List.mem_filter.mp h).2
  simpa [keepUser] using this

/-- Full statement "1xx/204/304 and HEAD never carry body bytes" is **false** for 304 (the
unedited test-suite pins a 304 that sends the handler's body: `not_modified_spec_h1`); proved
for HEAD and 204, with the 304 counter-example below.

theorem C02_bodiless (h : ctx.head ∨ res.status = 204 ∨ res.status = 304) : te = TE.empty -/
theorem C02_bodiless_partial (ctx : EncCtx) (res : RespHead) (size : BodySize)
    (h : ctx.head = true ∨ res.status = 204) : chooseTE ctx res size = TE.empty := by
  rcases h with h | h <;> simp [chooseTE, bodilessStatus, h]

example : ∃ ctx : EncCtx, ctx.head = true := ⟨{ head := true, stream := false, version := .h11, connType := .close }, rfl⟩

theorem witness_304_body :
    chooseTE { head := false, stream := false, version := .h11, connType := .keepAlive }
      { status := 304, connType := none, chunked := true, headers := [] } (.sized 4) = .length 4 := by
  decide

/-! ## the dispatcher: one response per request, in order, never interleaved

Everything below quantifies over **every** event list accepted by `Disp.step` (all read / write
schedules, all handler, expect, body and payload-reader behaviours, timers, graceful shutdown). -/

/-- requests handed to the application, in order -/
def begins : List Out → List Nat
  | [] => []
  | .begin r :: os => r :: begins os
  | _ :: os => begins os

/-- requests whose response head was written, in order -/
def heads : List Out → List Nat
  | [] => []
  | .head (some r) _ :: os => r :: heads os
  | _ :: os => heads os

theorem proto_order : ∀ (outs : List Out) (p q : Proto), protoRun p outs = some q →
    p.pending.toList ++ begins outs = heads outs ++ q.pending.toList := by
  intro outs
  induction outs with
  | nil => intro p q h; simp [protoRun] at h; subst h; simp [begins, heads]
  | cons o os ih =>
    intro p q h
    simp only [protoRun] at h
    cases hs : protoStep p o with
    | none => simp [hs] at h
    | some p' =>
      simp only [hs] at h
      have ih' := ih p' q h
      cases o with
      | begin r =>
        simp only [protoStep] at hs
        split at hs
        · rename_i hg
          simp at hs hg; subst hs
          simp [begins, heads, hg.1] at ih' ⊢; exact ih'
        · simp at hs
      | head r f =>
        cases r with
        | some r =>
          simp only [protoStep] at hs
          split at hs
          · rename_i hg
            simp at hs hg; subst hs
            simp [begins, heads, hg.1] at ih' ⊢; exact ih'
          · simp at hs
        | none =>
          simp only [protoStep] at hs
          split at hs
          · simp at hs; subst hs; simpa [begins, heads] using ih'
          · simp at hs
      | chunk r n =>
        simp only [protoStep] at hs
        split at hs
        · simp at hs; subst hs; simpa [begins, heads] using ih'
        · simp at hs
      | endResp r =>
        simp only [protoStep] at hs
        split at hs
        · simp at hs; subst hs; simpa [begins, heads] using ih'
        · simp at hs
      | call r =>
        simp only [protoStep] at hs
        split at hs
        · simp at hs; subst hs; simpa [begins, heads] using ih'
        · simp at hs
      | expectCall r =>
        simp only [protoStep] at hs
        split at hs
        · simp at hs; subst hs; simpa [begins, heads] using ih'
        · simp at hs
      | continue100 =>
        simp only [protoStep] at hs
        split at hs
        · simp at hs; subst hs; simpa [begins, heads] using ih'
        · simp at hs
      | upgrade r =>
        simp only [protoStep] at hs
        split at hs
        · simp at hs; subst hs; simpa [begins, heads] using ih'
        · simp at hs
      | wrote bs => simp [protoStep] at hs; subst hs; simpa [begins, heads] using ih'
      | ioShutdown => simp [protoStep] at hs; subst hs; simpa [begins, heads] using ih'
      | wake => simp [protoStep] at hs; subst hs; simpa [begins, heads] using ih'
      | readerData r n => simp [protoStep] at hs; subst hs; simpa [begins, heads] using ih'
      | readerEof r => simp [protoStep] at hs; subst hs; simpa [begins, heads] using ih'
      | readerErr r e => simp [protoStep] at hs; subst hs; simpa [begins, heads] using ih'
      | readerPending r => simp [protoStep] at hs; subst hs; simpa [begins, heads] using ih'
      | done a b => simp [protoStep] at hs; subst hs; simpa [begins, heads] using ih'
      | repoll => simp [protoStep] at hs; subst hs; simpa [begins, heads] using ih'


/-- **C02_wellformed**: on every accepted run the outputs form a word of the response protocol
`Proto`: a request is handed to the application only when none is pending and no response is
open; a response head for request `r` is written only while `r` is the pending request; body
chunks and the end marker belong to the one open response; a new head never appears before the
previous response has ended (never interleaved); interim `100 Continue` only while a request is
pending.  The final protocol state is the one the dispatcher's `state` field says. -/
theorem C02_wellformed (cfg : Cfg) (es : List Event) (s : DState) (outs : List Out)
    (h : runRev cfg es = some (s, outs)) :
    protoRun ⟨none, none⟩ outs = some (protoOf s.st) :=
  (run_inv cfg es s outs h).1

/-- **C02_order**: the sequence of requests whose response head was written is a prefix of the
sequence of requests handed to the application — same order, nothing skipped, nothing answered
twice — and at most one request is in flight. -/
theorem C02_order (cfg : Cfg) (es : List Event) (s : DState) (outs : List Out)
    (h : runRev cfg es = some (s, outs)) :
    heads outs <+: begins outs ∧ (begins outs).length ≤ (heads outs).length + 1 := by
  have hp := proto_order outs _ _ (C02_wellformed cfg es s outs h)
  simp only [Option.toList, List.nil_append] at hp
  rw [hp]
  refine ⟨List.prefix_append _ _, ?_⟩
  cases (protoOf s.st).pending <;> simp

/-- **C02_context** (former findings F1 / F1b / F1c and the two upgrade-context findings, all
fixed): every response head written for request `r` on any accepted run — with or without an
upgrade service configured — is `headFacts ctx res size` for a context `ctx` that is request
`r`'s own: HEAD flag, version and connection type are those of the request being answered, no
matter what else (pipelined requests, an upgrade request) has been decoded in the meantime. -/
theorem C02_context (cfg : Cfg) (es : List Event) (s : DState) (outs : List Out)
    (h : runRev cfg es = some (s, outs)) (r : Nat) (f : HeadFacts) (hm : Out.head (some r) f ∈ outs) :
    ∃ (rq : ReqFacts) (ctx : EncCtx) (res : RespHead) (size : BodySize), rq.rid = r ∧ ctxMatches cfg ctx rq ∧ f = headFacts ctx res size :=
  run_heads cfg es s outs h r f hm

/-- corollaries in the property's own words: the response carries the request's version, and a
response to a HEAD request never has body bytes. -/
theorem C02_context_version_head (cfg : Cfg) (es : List Event) (s : DState)
    (outs : List Out) (h : runRev cfg es = some (s, outs)) (r : Nat) (f : HeadFacts)
    (hm : Out.head (some r) f ∈ outs) :
    ∃ rq : ReqFacts, rq.rid = r ∧ f.version = rq.version ∧ (rq.isHead = true → f.te = TE.empty) := by
  obtain ⟨rq, ctx, res, size, hr, hc, rfl⟩ := C02_context cfg es s outs h r f hm
  refine ⟨rq, hr, hc.2.1, ?_⟩
  intro hh
  exact C02_head_head ctx res size (by rw [hc.1]; exact hh)

/-- the upgrade request's own context is installed when the connection is handed over: what the
upgrade service encodes through the `Framed` uses the upgrade request's context, not that of the
request answered last -/
theorem C02_upgrade_ctx_installed (cfg : Cfg) (s : DState) (r : ReqFacts) (ctx : EncCtx) (rest : List Msg)
    (hd : s.flags.draining = false) (hm : s.messages = .upgrade r ctx :: rest) :
    (applyPop cfg s).1.ctx = ctx ∧ (applyPop cfg s).1.st = .upgrade r := by
  simp [applyPop, hd, hm]

/-- queuing an upgrade request leaves the codec context (of the response still to be encoded) alone
and stores the upgrade request's own context with the message -/
theorem C02_upgrade_queue_keeps_ctx (cfg : Cfg) (s0 : DState) (r : ReqFacts)
    (hb : r.body = .stream) (hu : cfg.upgrade = true) :
    (applyDecoded cfg s0 (.item r)).1.ctx = s0.ctx ∧
    (applyDecoded cfg s0 (.item r)).1.messages = s0.messages ++ [.upgrade r (newCtx cfg s0.ctx r)] := by
  simp [applyDecoded, hb, hu]

/-! ### hand-over to the upgrade service and flushing lose no output -/

/-- **C02_upgrade_handover_keeps_output**: whenever a step hands the connection to the upgrade
service (output `upgrade r`), the write buffer — everything encoded so far and not yet flushed —
and the read buffer are passed on unchanged. -/
theorem C02_upgrade_handover_keeps_output (cfg : Cfg) (s s' : DState) (o : List Out) (r : Nat)
    (h : step cfg s .pop = some (s', o)) (hu : Out.upgrade r ∈ o) :
    s'.writeBuf = s.writeBuf ∧ s'.readBuf = s.readBuf ∧ s'.mode = .upgraded := by
  simp only [step] at h
  split at h
  · simp only [Option.some.injEq] at h
    have e1 : s' = (applyPop cfg s).1 := by rw [h]
    have e2 : o = (applyPop cfg s).2 := by rw [h]
    subst e1 e2
    by_cases hd : s.flags.draining = true
    · simp [applyPop, hd] at hu
    · cases hm : s.messages with
      | nil => simp [applyPop, hd, hm] at hu
      | cons m rest =>
        cases m with
        | item rq ctx =>
          simp only [applyPop, hd, hm] at hu
          unfold startRequest at hu
          repeat' split at hu
          all_goals simp at hu
        | error status =>
          simp only [applyPop, hd, hm] at hu
          rcases sendResponse_cases cfg { s with messages := rest } none
            { status := status, connType := none, chunked := true, headers := [] } (.sized 0) true with
            ⟨_, f, h2⟩ | ⟨_, f, h2⟩ <;> (simp only [Bool.false_eq_true, if_false] at hu; rw [h2] at hu; simp at hu)
        | upgrade rq uctx => simp [applyPop, hd, hm]
  · simp at h

/-- what the upgrade service then encodes is appended behind it -/
theorem C02_upgrade_encode_appends (cfg : Cfg) (s s' : DState) (o : List Out) (res : RespHead) (data : Bytes)
    (h : step cfg s (.upgradeEncode res data) = some (s', o)) : ∃ added, s'.writeBuf = s.writeBuf ++ added := by
  simp only [step, ok] at h
  split at h
  · simp at h; obtain ⟨rfl, _⟩ := h
    exact ⟨encodeHead s.ctx res .stream ++ (teEncode (chooseTE s.ctx res .stream) data).2, by simp⟩
  · simp at h

/-- **C02_flush_loses_nothing**: a flush step moves a prefix of the write buffer to the socket and
keeps the rest: `written ++ remaining = before`, in every mode (also inside the upgrade service). -/
theorem C02_flush_loses_nothing (cfg : Cfg) (s s' : DState) (o : List Out) (k : Nat)
    (h : step cfg s (.flushWrite k) = some (s', o)) :
    ∃ bs, o = [.wrote bs] ∧ bs ++ s'.writeBuf = s.writeBuf := by
  simp only [step, ok] at h
  split at h
  · simp at h; obtain ⟨rfl, rfl⟩ := h; exact ⟨_, rfl, List.take_append_drop k _⟩
  · simp at h

def wReq0 : ReqFacts := { rid := 0, isHead := false, version := .h11, conn := .keepAlive, expect := false, body := .none }

/-- **C02_failure_terminates**: when the response body fails (error from the body stream) the
connection future completes with an error in that very step, and on every continuation of the
run nothing but neutral outputs follow: no end-of-response marker for the failed response, no
further head, no further dispatch. (For a body that ends short of its declared size the same
holds — `bodyShort_step` — and `C02_failure_visible_*` show that the bytes on the wire are not a
complete message.) -/
theorem C02_failure_terminates (cfg : Cfg) (es1 es2 : List Event) (s1 s : DState) (outs1 outs : List Out)
    (h1 : runRev cfg (Event.bodyPoll .err :: es1) = some (s1, outs1))
    (h : runRev cfg (es2 ++ Event.bodyPoll .err :: es1) = some (s, outs)) :
    s.mode = .done ∧ ∃ t, outs = outs1 ++ t ∧ ∀ x ∈ t, neutral x = true := by
  have hm : s1.mode = .done := by
    simp only [runRev] at h1
    split at h1
    · simp at h1
    · rename_i s0 o0 _
      split at h1
      · simp at h1
      · rename_i s' o' hs
        simp at h1; obtain ⟨rfl, rfl⟩ := h1
        exact (bodyErr_step cfg s0 s' o' hs).1
  exact run_after_done cfg _ s1 outs1 h1 hm es2 s outs h

/-! ### a known finding on the model: in-flight request dropped on a later pipelined parse error

With `h1_allow_half_closed(false)` a malformed request pipelined behind a request whose handler
is still pending sets `READ_DISCONNECT`; the epilogue treats it like a lost peer and shuts the
connection down: request 0 was handed to the application, never answered, the connection future
completes with `Ok`.  (Full statement "every begun request is answered unless the connection ends
with an error or the peer goes away" is therefore not claimed.) -/

def wCfg : Cfg := { kaEnabled := true, kaTimeout := true, reqTimeout := true, discTimeout := false,
                    allowHalfClosed := false, writeBufSize := 32768 }
def wAbortEvents : List Event :=
  [.pollStart, .enter, .readData [.head wReq0, .bad], .readPending, .start, .pollRequestEnter,
   .decodeOne, .handlerPoll .pending, .decodeOne, .handlerPoll .pending, .pollRequestEnter, .tail,
   .pollStart, .enter, .ioShutdown true]

theorem witness_abort_on_parse_error :
    (run wCfg wAbortEvents).map (fun r => (begins r.2, heads r.2, r.2.contains (.done true "ok"))) =
      some ([0], [], true) := by
  decide

end ActixModel.C02
