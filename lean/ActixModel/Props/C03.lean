import ActixModel.Proofs.Disp
import ActixModel.Props.C02
/-
C03 — HTTP/1 reuse discipline: close means close; unread request bodies are never reparsed.

Model: `Model/Disp.lean` (dispatcher event machine incl. the payload channel and the unit-level
request decoder).  All theorems quantify over every event list accepted by `Disp.step`.
-/
namespace ActixModel.C03
open ActixModel.Util ActixModel.H1Encode ActixModel.Disp

/-! ## unread bodies are never reparsed -/

/-- **C03_head_only_after_body_end**: on every accepted run, whenever the decode loop turns bytes
into a *request head*, the codec is not inside a request body (`pdec = none`) and the payload slot
is empty — i.e. the previous request's body was decoded to its exact end (`Eof` item), so body
bytes a handler ignored are never interpreted as the next request.  (Together with
`decodeUnits_pdec`: the payload decoder only becomes `none` through an `Eof` item.) -/
theorem C03_head_only_after_body_end (cfg : Cfg) (es : List Event) (s : DState) (outs : List Out)
    (h : runRev cfg es = some (s, outs)) (hg : s.mode = .normal ∧ s.inDecode = true) (r : ReqFacts)
    (hd : (decodeUnits s.pdec s.readBuf).1 = .item r) :
    s.payload = none ∧ s.pdec = none := by
  have hI := run_inv2 cfg es s outs h
  have hrd : s.flags.readDisc = false := by
    cases hr : s.flags.readDisc with
    | false => rfl
    | true => have := hI.noDecode hr; rw [this] at hg; simp at hg
  exact (inv2_applyDecoded cfg s hI hrd).2 r hd

example : ∃ s : DState, s.mode = .normal ∧ s.inDecode = true ∧
    ∃ r, (decodeUnits s.pdec s.readBuf).1 = .item r :=
  ⟨{ mode := .normal, inDecode := true, readBuf := [.head C02.wReq0] }, rfl, rfl, C02.wReq0, rfl⟩

/-- **C03_slot_means_in_body**: on every accepted run an occupied payload slot means the codec is
inside that body (so the next bytes are body bytes, not a head). -/
theorem C03_slot_means_in_body (cfg : Cfg) (es : List Event) (s : DState) (outs : List Out)
    (h : runRev cfg es = some (s, outs)) (hp : s.payload.isSome = true) : s.pdec.isSome = true :=
  (run_inv2 cfg es s outs h).slot hp

/-- **C03_keepalive_requires_drained**: the `KEEP_ALIVE` flag is only ever raised by
`poll_response` finding no response in progress, the queue empty, the connection type keep-alive
and **no request body outstanding** (`payload = none`). -/
theorem C03_keepalive_requires_drained (cfg : Cfg) (s s' : DState) (e : Event) (o : List Out)
    (hk : s.flags.keepAlive = false) (h : step cfg s e = some (s', o)) (hk' : s'.flags.keepAlive = true) :
    e = .pop ∧ s.payload = none ∧ s.st = .none ∧ s.messages = [] ∧ s.flags.draining = false ∧
      s.ctx.connType = .keepAlive :=
  ka_step cfg s s' e o hk h hk'

/-! ## after a parse error / EOF nothing is read or decoded any more -/

/-- **C03_no_decode_after_read_disconnect**: on every accepted run, once `READ_DISCONNECT` is set
(malformed request ⇒ 400 queued, EOF, reset) neither a socket read nor a decode step is accepted:
no byte after a rejected request is ever interpreted. -/
theorem C03_no_decode_after_read_disconnect (cfg : Cfg) (es : List Event) (s : DState) (outs : List Out)
    (h : runRev cfg es = some (s, outs)) (hr : s.flags.readDisc = true) :
    step cfg s .decodeOne = none ∧ ∀ us, step cfg s (.readData us) = none := by
  have hn := (run_inv2 cfg es s outs h).noDecode hr
  constructor
  · simp [step, hn]
  · intro us; simp [step, hr]

/-- a parse error sets `READ_DISCONNECT`, queues exactly one 400 and leaves the decode loop -/
theorem C03_parse_error_effect (cfg : Cfg) (s0 : DState) :
    (applyDecoded cfg s0 .errParse).1.flags.readDisc = true ∧
    (applyDecoded cfg s0 .errParse).1.inDecode = false ∧
    (applyDecoded cfg s0 .errParse).1.payload = none ∧
    (applyDecoded cfg s0 .errParse).1.messages = s0.messages ++ [.error 400] := by
  simp [applyDecoded, pushError, DState.takePayloadErr]
  unfold DState.onSlot; split <;> rfl

/-- an oversized, never-ending request head (`ParseError::TooLarge`) has the same effect with a
431: `READ_DISCONNECT`, exactly one error response queued, decode loop left — together with
`C03_no_decode_after_read_disconnect` the head is never parsed again, so no second 431 -/
theorem C03_too_large_effect (cfg : Cfg) (s0 : DState) :
    (applyDecoded cfg s0 .errTooLarge).1.flags.readDisc = true ∧
    (applyDecoded cfg s0 .errTooLarge).1.inDecode = false ∧
    (applyDecoded cfg s0 .errTooLarge).1.payload = none ∧
    (applyDecoded cfg s0 .errTooLarge).1.messages = s0.messages ++ [.error 431] := by
  simp [applyDecoded, pushError, DState.takePayloadErr]
  unfold DState.onSlot; split <;> rfl

/-- a head at the buffer cap is rejected as soon as the decode loop sees it -/
theorem C03_huge_head_rejected (rest : List RUnit) :
    (decodeUnits none (.huge :: rest)).1 = .errTooLarge ∧
    (decodeUnits none (.hugeA :: .hugeB :: rest)).1 = .errTooLarge ∧
    (decodeUnits none [.hugeA]).1 = .needMore := by
  simp [decodeUnits, decodeHead]

/-! ## close means close -/

/-- **C03_silent_once_closing**: once `SHUTDOWN` or `LINGER` is set and the poll that decided it
is over (the machine is not inside the normal-mode body of `poll`), every continuation of the run
is silent: nothing is handed to the application, no response head, no interim response, no body
chunk — only flushing of bytes already buffered, reads that are discarded, and the socket
shutdown.  (Hypothesis `headTimer ≠ active`: a first-request timer that is still armed writes one
408 when it expires — e.g. the peer half-closes before sending a request; the timer is cleared as
soon as one request head was decoded or it has fired.) -/
theorem C03_silent_once_closing (cfg : Cfg) (es1 es2 : List Event) (s1 s : DState) (outs1 outs : List Out)
    (h1 : runRev cfg es1 = some (s1, outs1)) (hc : Closing s1)
    (h : runRev cfg (es2 ++ es1) = some (s, outs)) :
    Closing s ∧ ∃ t, outs = outs1 ++ t ∧ ∀ x ∈ t, neutral x = true :=
  run_closing cfg es1 s1 outs1 h1 hc es2 s outs h

example : ∃ s : DState, Closing s :=
  ⟨{ flags := { shutdown := true }, mode := .idle }, Or.inl rfl, by decide, by decide⟩

/-- **C03_unread_closes**: a response that completes while the request body is unread and cannot
be drained (`should_close_for_unread_payload`) raises `LINGER` (disconnect timeout configured) or
`SHUTDOWN`, and lowers `KEEP_ALIVE` in the linger case. -/
theorem C03_unread_closes (cfg : Cfg) (f : Flags) :
    ((finishFlags cfg f true).linger = true ∨ (finishFlags cfg f true).shutdown = true) ∧
      (finishFlags cfg f true).finished = true := by
  unfold finishFlags enterLinger
  by_cases h : cfg.discTimeout <;> simp [h]

/-- the decision itself, in the property's words: close iff the slot is occupied and the body is
not (dropped by the handler ∧ drainable) -/
theorem C03_close_for_unread_iff (s : DState) :
    s.closeForUnread = true ↔ s.payload.isSome = true ∧ ¬ (s.slotDropped = true ∧ s.drainable = true) := by
  simp [DState.closeForUnread]
  intro _
  cases s.slotDropped <;> cases s.drainable <;> simp

/-- the epilogue: a finished response without keep-alive and without an outstanding body starts
the shutdown in the same poll (`tail`), when everything buffered has been flushed. -/
theorem C03_tail_shuts_down (cfg : Cfg) (s s' : DState) (o : List Out)
    (hn : s.mode = .normal) (hw : s.flags.writeDisc = false) (hst : s.st = .none) (hb : s.writeBuf = [])
    (he : s.error = none) (hf : s.flags.finished = true) (hk : s.flags.keepAlive = false) (hp : s.payload = none)
    (h : step cfg s .tail = some (s', o)) : s'.flags.shutdown = true ∧ o = [.repoll] := by
  simp only [step, ok, finish] at h
  by_cases hr : s.flags.readDisc = true
  · simp [hn, hw, hst, hb, he, hf, hk, hp, hr] at h
    obtain ⟨rfl, rfl⟩ := h; simp
  · simp [hn, hw, hst, hb, he, hf, hk, hp, hr] at h
    obtain ⟨rfl, rfl⟩ := h; simp

/-! ### the full statement is false of the current code (known finding `dispatch-after-close`)

theorem C03_silent_after_close : once a `Head r f` with `f.connType = close` (or the 400 for a
malformed request) has been output, no later `begin` / `head` / `continue100` is output.

It fails because (1) the decode loop and `poll_response` keep handing queued / already buffered
requests to the application after a response that announced close — the unedited test-suite pins
this (`dispatcher_tests::pipelining_ok_then_ok`: keep-alive disabled, two pipelined GETs, both
answered with `connection: close`) — and (2) a response that raised `SHUTDOWN`/`LINGER` for an
unread body does not stop the decode loop of the same poll.  What holds is
`C03_silent_once_closing` (silence from the end of that poll on) and, as `_partial`, silence as
soon as the connection future has completed: -/
theorem C03_silent_after_close_partial (cfg : Cfg) (es1 es2 : List Event) (s1 s : DState) (outs1 outs : List Out)
    (h1 : runRev cfg es1 = some (s1, outs1)) (hm : s1.mode = .done)
    (h : runRev cfg (es2 ++ es1) = some (s, outs)) :
    s.mode = .done ∧ ∃ t, outs = outs1 ++ t ∧ ∀ x ∈ t, neutral x = true :=
  run_after_done cfg es1 s1 outs1 h1 hm es2 s outs h

def wCfgNoKa : Cfg := { kaEnabled := false, kaTimeout := false, reqTimeout := true, discTimeout := false,
                        allowHalfClosed := true, writeBufSize := 32768 }
def wReq1 : ReqFacts := { rid := 1, isHead := false, version := .h11, conn := .keepAlive, expect := false, body := .none }
def wRes : RespHead := { status := 200, connType := none, chunked := true, headers := [] }

/-- two pipelined GETs, keep-alive disabled: the first response announces close, then request 1 is
still handed to the application (same scenario as `pipelining_ok_then_ok`) -/
def wCloseEvents : List Event :=
  [.pollStart, .enter, .readData [.head C02.wReq0, .head wReq1], .readPending, .start, .pollRequestEnter,
   .decodeOne, .handlerPoll (.ready wRes (.sized 0)), .decodeOne]

def closeThenBegin : List Out → Bool
  | [] => false
  | .head _ f :: rest => (f.connType == .close && rest.any (fun o => match o with | .begin _ => true | _ => false)) || closeThenBegin rest
  | _ :: rest => closeThenBegin rest

theorem witness_dispatch_after_close :
    (run wCfgNoKa wCloseEvents).map (fun r => closeThenBegin r.2) = some true := by
  decide

end ActixModel.C03
