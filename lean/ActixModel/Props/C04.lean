import ActixModel.Proofs.Flush
import ActixModel.Proofs.DispWake
import ActixModel.Proofs.Exec
/-
C04 — HTTP/1 connections always progress: no lost wake-ups, all bytes flushed.

Models: `Model/Flush.lean` (`poll_flush`), `Model/DispWake.lean` (the dispatcher as a
wake-registering machine), `Model/Exec.lean` (the wake-driven executor).
-/
namespace ActixModel.C04
open ActixModel.Flush

variable {σ α : Type}

/-! ## every produced byte is written exactly once, in order -/

/-- **C04_flush_exactly_once.** For *every* socket — an arbitrary state machine `write` that may
accept any `0 < n ≤ offered` bytes, answer `Pending`, or answer `0`, adaptively — and every
interleaving `evs` of the encoder appending bytes to `write_buf` with `poll_flush` calls:

* while the connection lives, `accepted ++ write_buf = produced`  (nothing lost, nothing
  duplicated, nothing reordered across partial writes and `advance`);
* after a `WriteZero` failure the accepted bytes are still a prefix of the produced bytes;
* whenever the last `poll_flush` drained the buffer, `accepted = produced`. -/
theorem C04_flush_exactly_once (write : σ → Nat → WriteAns × σ) (s₀ : σ) (evs : List (Ev α)) :
    let x := Sess.run write ({ sock := s₀ } : Sess σ α) evs
    (x.dead = false → x.accepted ++ x.writeBuf = x.produced) ∧
    (x.dead = true → x.accepted <+: x.produced) ∧
    (x.last = some .drained → x.accepted = x.produced) := by
  intro x
  obtain ⟨h1, h2, h3⟩ := Sess.inv_run write evs _ (Sess.inv_init s₀)
  refine ⟨h1, h2, fun hl => ?_⟩
  obtain ⟨hd, hb⟩ := h3 hl
  have := h1 hd
  rw [hb, List.append_nil] at this
  exact this

/-- The same statement for the oracle-list socket of the property text: the write oracle is any
list of `accept k` / `pending` / `zero` answers (an exhausted list accepts everything). -/
theorem C04_flush_exactly_once_oracle (oracle : List WriteAns) (evs : List (Ev α)) :
    let x := Sess.run listSock ({ sock := oracle } : Sess (List WriteAns) α) evs
    (x.dead = false → x.accepted ++ x.writeBuf = x.produced) ∧
    (x.dead = true → x.accepted <+: x.produced) ∧
    (x.last = some .drained → x.accepted = x.produced) :=
  C04_flush_exactly_once listSock oracle evs

/-- non-vacuity: a session that produces, is partially flushed, produces again and is drained -/
example :
    let x := Sess.run listSock ({ sock := [.accept 2, .pending, .accept 1] } : Sess _ Nat)
      [.produce [1, 2, 3], .flush, .produce [4], .flush]
    x.accepted = [1, 2, 3, 4] ∧ x.writeBuf = [] ∧ x.last = some .drained := by decide

/-- **C04_flush_call.** One `poll_flush` call, any socket: `Pending` leaves exactly the unwritten
suffix in the buffer (`advance(written)`), a drained call has handed over the whole buffer. -/
theorem C04_flush_call (write : σ → Nat → WriteAns × σ) (buf : List α) (s : σ) :
    let o := pollFlush write buf s
    (o.res = .drained → o.buf = [] ∧ o.accepted = buf) ∧
    (o.res = .pending → o.accepted ++ o.buf = buf) ∧
    (o.res = .writeZero → o.buf = buf ∧ ∃ k, o.accepted = buf.take k) :=
  pollFlush_spec write buf s

/-- **C04_flush_pending_registers.** `poll_flush` returns `Pending` from its write loop only if
the socket itself answered `Pending` to a `poll_write` with a non-empty slice — i.e. the socket
holds the task's waker: the flush never sleeps on its own. -/
theorem C04_flush_pending_registers (write : σ → Nat → WriteAns × σ) (buf : List α) (s : σ)
    (h : (pollFlush write buf s).res = .pending) :
    ∃ s₁ offered, 0 < offered ∧ (write s₁ offered).1 = .pending ∧
      (pollFlush write buf s).sock = (write s₁ offered).2 :=
  loop_pending_from_socket write buf buf.length 0 [] s h

/-- **C04_flush_len_refines.** The length-only flush used inside the dispatcher model is the
byte-level flush seen through `List.length`. -/
theorem C04_flush_len_refines (write : σ → Nat → WriteAns × σ) (buf : List α) (s : σ) :
    let o := pollFlush write buf s
    let l := pollFlushLen write buf.length s
    l.res = o.res ∧ l.len = o.buf.length ∧ l.accepted = o.accepted.length ∧ l.sock = o.sock :=
  pollFlushLen_eq write buf s


/-- **C04_flush_terminates.** Flushing terminates: against a socket that never answers `0` and
answers `Pending` at most `n - 1` more times (every `Pending` stores the waker, every wake-up
leads to one more `poll_flush`), `n` calls of `poll_flush` drain the buffer — everything produced
has then been accepted, exactly once and in order.  The measure is the number of `Pending`
answers the socket still has in store; every call that does not finish consumes one. -/
theorem C04_flush_terminates (buf : List α) (oracle : List WriteAns) (n : Nat)
    (hz : noZero oracle = true) (hn : countPending oracle < n) :
    let x := Sess.run listSock
      ({ sock := oracle, writeBuf := buf, produced := buf } : Sess (List WriteAns) α)
      (List.replicate n .flush)
    x.writeBuf = [] ∧ x.accepted = buf ∧ x.dead = false := by
  intro x
  have hinv : ({ sock := oracle, writeBuf := buf, produced := buf } : Sess (List WriteAns) α).Inv := by
    refine ⟨fun _ => by simp, fun h => by simp at h, fun h => by simp at h⟩
  obtain ⟨h1, h2, h3, h4⟩ := flush_terminates n _ hinv rfl hz hn
  exact ⟨h1, h2.trans h3, h4⟩

/-- non-vacuity: two `Pending` answers, three calls -/
example :
    let x := Sess.run listSock
      ({ sock := [.accept 1, .pending, .accept 5, .pending], writeBuf := [1, 2, 3, 4], produced := [1, 2, 3, 4] } :
        Sess (List WriteAns) Nat) (List.replicate 3 .flush)
    x.writeBuf = [] ∧ x.accepted = [1, 2, 3, 4] := by decide

/-! ## a `Pending` poll has registered the events it waits for

`DispWake.pollTop` is one `Dispatcher::poll` call of the model.  The theorems quantify over
**every** dispatcher state `d`, every world `w` (scripts, credits, stored wakers, channel states)
and every configuration — reachable or not — so they hold along every schedule. -/

open ActixModel.DispWake

/-- **C04_pending_registers_write.** Whenever `Dispatcher::poll` returns `Pending` — in normal,
linger or shutdown mode — without having requested a wake-up itself (a self-woken task is polled
again at once), either nothing is unflushed (`write_buf` empty and the socket has
nothing accepted-but-unflushed), or the task's waker is stored with the socket's write side
(`poll_write` or `poll_flush` answered `Pending` during this very poll).  Response bytes are never
left waiting for a wake-up that nobody will deliver. -/
theorem C04_pending_registers_write (e : Env) (F : Nat) (d d' : D) (w w' : World)
    (hnu : d.upgraded = false) (h : pollTop e F d w = (.pending, d', w')) (hw : w'.woken = false) :
    (d'.wlen = 0 ∧ w'.dirty = false) ∨ (w'.sem .w).waiting = true ∨ (w'.sem .f).waiting = true := by
  obtain ⟨hp, hfuel⟩ := pollTop_pending hnu h
  rcases (poll_spec e F 2 d w d' w' hp hw).1 with h1 | h1 | h1 | h1
  · exact Or.inl h1
  · exact Or.inr (Or.inl h1)
  · exact Or.inr (Or.inr h1)
  · rw [hfuel] at h1; cases h1

/-- **C04_pending_registers_read.** Whenever `Dispatcher::poll` returns `Pending` in normal mode
without having requested a wake-up itself, the read side is accounted for: the read half is
closed (`READ_DISCONNECT`), or the socket holds the task's read waker (`poll_read` answered
`Pending` during this poll), or the read buffer is at its cap (back-pressure: input is not wanted
until the request-body consumer or the pipeline queue makes room).
With the `fix:` commit this holds for *all* states; before it, a paused payload that was dropped
later in the same poll violated it (`witness_unfixed_tail_sleeps` below). -/
theorem C04_pending_registers_read (e : Env) (F : Nat) (d d' : D) (w w' : World)
    (hfix : e.cfg.fixed = true) (hnu : d.upgraded = false)
    (h : pollTop e F d w = (.pending, d', w'))
    (hw : w'.woken = false) (hl : d'.flags.linger = false) (hs : d'.flags.shutdown = false)
    (hnu' : d'.upgraded = false) :
    d'.flags.readDisc = true ∨ (w'.sem .r).waiting = true ∨ w'.silentWaiting = true ∨
      d'.rb ≥ Consts.h1MaxBufferSize := by
  obtain ⟨hp, hfuel⟩ := pollTop_pending hnu h
  rcases (poll_spec e F 2 d w d' w' hp hw).2 hfix hl hs hnu' with h1 | (h1 | h1 | h1) | h1
  · exact Or.inl h1
  · exact Or.inr (Or.inl h1)
  · exact Or.inr (Or.inr (Or.inl h1))
  · rw [hfuel] at h1; cases h1
  · exact Or.inr (Or.inr (Or.inr h1))

/-- non-vacuity of the hypotheses of the `C04_pending_registers_*` theorems: a fresh connection
whose peer has sent nothing yet is polled, returns `Pending` in normal mode without a self-wake,
and the socket holds the read waker -/
example :
    let e : Env := { cfg := {}, reqs := [] }
    let r := pollTop e 64 (D.init e.cfg e.reqs) { rops := [.barrier] }
    r.1 = .pending ∧ r.2.2.woken = false ∧ r.2.1.flags.linger = false ∧
    r.2.1.flags.shutdown = false ∧ (r.2.2.sem .r).waiting = true := by decide

/-! ### what the `fix:` commit buys: the pre-fix tail goes to sleep unregistered -/

/-- A state of the kind the correspondence reaches with `Q:80:c300000:qdq:S5`: the read buffer is
at its cap, the request payload is paused (40 000 bytes buffered, consumer not reading, so its
`io_task` waker is the only thing registered), the handler is about to drop the payload and then
wait for an external event. -/
def witnessReq : Req :=
  { headLen := 80, body := .chunked [300000], hsteps := [.extPend, .drop, .extPend], resp := .zero,
    csteps := [] }

def witnessD : D :=
  { flags := { started := true }
    st := .service { rid := 0, steps := [.drop, .extPend], hasPl := true }
    payload := some 0, drainable := true
    rb := 131072, pendSegs := [.data 200000, .frame 2, .frame 5, .pend] }

def witnessW : World :=
  { chans := [{ items := [40000], len := 40000, needRead := false }], wireLeft := 68935 }

def witnessEnv (fixed : Bool) : Env := { cfg := { fixed := fixed }, reqs := [witnessReq] }

/-- **witness_unfixed_tail_sleeps.** Without the fix (`fixed := false`) the poll returns
`Pending` in normal mode, has *not* requested a wake-up, the read half is open, the read buffer
is empty — and the socket does not hold the task's read waker: the conclusion of
`C04_pending_registers_read` is false.  68 935 bytes of the request (and the peer's EOF) are
never read unless something unrelated wakes the task. -/
theorem witness_unfixed_tail_sleeps :
    let r := pollTop (witnessEnv false) 64 witnessD witnessW
    r.1 = .pending ∧ r.2.2.woken = false ∧ r.2.1.flags.linger = false ∧
    r.2.1.flags.shutdown = false ∧
    r.2.1.flags.readDisc = false ∧ (r.2.2.sem .r).waiting = false ∧
    r.2.2.silentWaiting = false ∧ r.2.1.rb = 0 := by
  decide

/-- the same state with the fix: the poll asks to be polled again (and that poll reads the socket) -/
theorem witness_fixed_tail_wakes :
    let r := pollTop (witnessEnv true) 64 witnessD witnessW
    r.1 = .pending ∧ r.2.2.woken = true := by
  decide

/-! ### buffered requests behind a full pipeline queue are decoded once the queue drains -/

/-- **C04_tail_resumes_decoding.** (fixed code) If `poll_request` was refused at the start of a
poll because the pipeline queue was full (`pipelineWasFull`), the tail of `Dispatcher::poll` does
not return `Pending` without a wake-up request while the queue has room again, input is still
buffered and the read half is open: the buffered requests are decoded by the next poll instead
of waiting for a socket event that a peer which has sent everything will never cause. -/
theorem C04_tail_resumes_decoding (e : Env) (full : Bool) (d d' : D) (w w' : World)
    (hfix : e.cfg.fixed = true) (h : normalTail e full true d w = .ret .pending d' w')
    (hw : w'.woken = false) :
    ¬(d'.messages.length < Consts.h1MaxPipelined ∧ d'.rb > 0 ∧ d'.flags.readDisc = false) := by
  obtain ⟨_, _, _, _, hp⟩ := normalTail_ret _ _ _ _ _ _ _ _ h
  have := ((hp rfl hw).2.2 hfix).2
  intro hc
  exact this ⟨rfl, hc⟩

/-- 20 tiny requests; the first 17 arrived while handler 0 was Pending (1 in service + 16 queued),
the last 3 (93 bytes) arrived when the queue was already full and sit undecoded in `read_buf`;
all handlers are now Ready at first poll; the peer has sent everything and stays silent -/
def queueReq : Req := { headLen := 31, body := .none, hsteps := [], resp := .zero, csteps := [] }

def queueD : D :=
  { flags := { started := true }
    st := .service { rid := 0, steps := [], hasPl := false }
    messages := (List.range 16).map fun i => .item (i + 1) false false
    rb := 93, pendSegs := [.head 17 31 .none, .head 18 31 .none, .head 19 31 .none]
    codecClose := false }

def queueW : World := { rops := [.silent], chans := List.replicate 20 {} }

def queueEnv (fixed : Bool) : Env := { cfg := { fixed := fixed }, reqs := List.replicate 20 queueReq }

/-- **witness_unfixed_queue_sleeps.** Before the fix: all 17 started requests are answered in this
one poll (no handler returns `Pending`, so the nested `poll_request` never runs), the poll returns
`Pending` without a wake-up request, the queue is empty, 93 bytes = 3 complete requests are still
buffered, the read half is open — and only the (silent) socket could wake the task. -/
theorem witness_unfixed_queue_sleeps :
    let r := pollTop (queueEnv false) 64 queueD queueW
    r.1 = .pending ∧ r.2.2.woken = false ∧ r.2.2.calls = 16 ∧ r.2.1.messages.length = 0 ∧
    r.2.1.rb = 93 ∧ r.2.1.flags.readDisc = false ∧ r.2.1.flags.shutdown = false := by
  decide

/-- with the fix the same poll asks to be polled again -/
theorem witness_fixed_queue_wakes :
    let r := pollTop (queueEnv true) 64 queueD queueW
    r.1 = .pending ∧ r.2.2.woken = true ∧ r.2.1.rb = 93 := by
  decide

/-- **C04_pending_registers_linger.** A `Pending` poll that ends in linger mode (discarding the
unread request body before closing) without a self-wake waits on a registered source: the flush
(write side), or the socket's read side, or the read half is closed (then only the shutdown
timer, which `ensure_linger_timer` has armed, is left). -/
theorem C04_pending_registers_linger (e : Env) (F : Nat) (d d' : D) (w w' : World)
    (hnu : d.upgraded = false) (h : pollTop e F d w = (.pending, d', w')) (hw : w'.woken = false)
    (hl : d'.flags.linger = true) (hnu' : d'.upgraded = false) :
    (w'.sem .w).waiting = true ∨ (w'.sem .f).waiting = true ∨
    d'.flags.readDisc = true ∨ (w'.sem .r).waiting = true ∨ w'.silentWaiting = true := by
  obtain ⟨hp, hfuel⟩ := pollTop_pending hnu h
  -- two polls deep at most; each level either is the linger branch or the normal tail (which
  -- wakes when LINGER is set)
  have key : ∀ (depth : Nat) (d : D) (w : World), poll e F depth d w = (.pending, d', w') →
      (w'.sem .w).waiting = true ∨ (w'.sem .f).waiting = true ∨
      d'.flags.readDisc = true ∨ ReadReg w' := by
    intro depth
    induction depth with
    | zero => intro d w h; simp [poll] at h; obtain ⟨_, rfl⟩ := h; simp [World.outOfFuel] at hfuel
    | succ depth ih =>
      intro d w h
      unfold poll at h
      split at h
      · simp at h
      · next d0 w0 ht =>
        split at h
        · next hlin =>
          unfold lingerBranch at h
          split at h
          · simp at h
          · simp at h; obtain ⟨_, rfl⟩ := h; simp [World.wake] at hw
          · next d1 w1 hpl =>
            simp at h; obtain ⟨rfl, rfl⟩ := h
            -- `pollLinger` pending: from the flush or from the read loop
            unfold pollLinger at hpl
            split at hpl
            · simp at hpl
            · next d2 he =>
              split at hpl
              · simp at hpl
              · next d3 w3 hf =>
                simp at hpl; obtain ⟨rfl, rfl⟩ := hpl
                have pf : FlushPost .pending d3 w3 := post_of_eq3 hf (dFlush_spec d2 w0).2
                rcases pf.2 rfl with h1 | h1 | h1
                · exact Or.inl h1
                · exact Or.inr (Or.inl h1)
                · exact Or.inr (Or.inr (Or.inr (Or.inr (Or.inr h1))))
              · rcases lingerLoop_pending _ _ _ _ _ _ hpl with h1 | h1
                · exact Or.inr (Or.inr (Or.inl h1))
                · exact Or.inr (Or.inr (Or.inr h1))
        · split at h
          · next hsd =>
            have := (shutdownBranch_spec e d0 w0 d' w' h).2
            rcases shutdownBranch_registered e d0 w0 d' w' h with h1 | h1 | h1 | h1
            · exact Or.inl h1
            · exact Or.inr (Or.inl h1)
            · -- shutdown mode: `linger` is unchanged (= false here)
              rename_i hnl
              rw [this] at hl; exact absurd hl hnl
            · exact Or.inr (Or.inr (Or.inr (Or.inr (Or.inr h1))))
          · split at h
            · simp at h
            · next sd d1 w1 hr =>
              simp only at h
              generalize afterRead e sd d1 w1 = ar at h
              obtain ⟨d2, w2⟩ := ar
              try simp only at h
              generalize respFlushLoop e F F d2 w2 = rf at h
              obtain ⟨k, d3, w3⟩ := rf
              try simp only at h
              split at h
              · -- `PollResponse::Upgrade` (or an error)
                split at h
                · have := (upgradeBranch_spec _ _ _ _ h).2
                  rw [this] at hnu'; simp [enterUpgrade, D.produce] at hnu'
                · simp at h
              · split at h
                · next r d4 w4 hn =>
                  simp at h; obtain ⟨rfl, rfl, rfl⟩ := h
                  obtain ⟨_, _, _, _, hp4⟩ := normalTail_ret _ _ _ _ _ _ _ _ hn
                  have := (hp4 rfl hw).1
                  rw [this] at hl; cases hl
                · exact ih _ _ h
  rcases key 2 d w hp with h1 | h1 | h1 | h1 | h1 | h1
  · exact Or.inl h1
  · exact Or.inr (Or.inl h1)
  · exact Or.inr (Or.inr (Or.inl h1))
  · exact Or.inr (Or.inr (Or.inr (Or.inl h1)))
  · exact Or.inr (Or.inr (Or.inr (Or.inr h1)))
  · rw [hfuel] at h1; cases h1

/-- **C04_pending_registers_shutdown.** A `Pending` poll that ends in shutdown mode without a
self-wake has stored the task's waker with the socket's write side: `poll_write`, `poll_flush`
or `poll_shutdown` answered `Pending` during this poll. -/
theorem C04_pending_registers_shutdown (e : Env) (F : Nat) (d d' : D) (w w' : World)
    (hnu : d.upgraded = false) (h : pollTop e F d w = (.pending, d', w')) (hw : w'.woken = false)
    (hs : d'.flags.shutdown = true) (hl : d'.flags.linger = false) (hnu' : d'.upgraded = false) :
    (w'.sem .w).waiting = true ∨ (w'.sem .f).waiting = true ∨ (w'.sem .s).waiting = true := by
  obtain ⟨hp, hfuel⟩ := pollTop_pending hnu h
  have key : ∀ (depth : Nat) (d : D) (w : World), poll e F depth d w = (.pending, d', w') →
      (w'.sem .w).waiting = true ∨ (w'.sem .f).waiting = true ∨ (w'.sem .s).waiting = true := by
    intro depth
    induction depth with
    | zero => intro d w h; simp [poll] at h; obtain ⟨_, rfl⟩ := h; simp [World.outOfFuel] at hfuel
    | succ depth ih =>
      intro d w h
      unfold poll at h
      split at h
      · simp at h
      · next d0 w0 ht =>
        split at h
        · next hlin =>
          -- LINGER branch: a Pending result keeps `linger = true` (contradiction) or woke itself
          exfalso
          unfold lingerBranch at h
          split at h
          · simp at h
          · simp at h; obtain ⟨_, rfl⟩ := h; simp [World.wake] at hw
          · next d1 w1 hpl =>
            simp at h; obtain ⟨rfl, rfl⟩ := h
            unfold pollLinger at hpl
            have hel := (ensureLingerTimer_same e d0 w0.now).2
            split at hpl
            · simp at hpl
            · next d2 he =>
              rw [he] at hel; simp only at hel
              split at hpl
              · simp at hpl
              · next d3 w3 hf =>
                simp at hpl; obtain ⟨rfl, rfl⟩ := hpl
                have := dFlush_flags d2 w0; rw [hf] at this
                simp only at this; rw [this, hel, hlin] at hl; cases hl
              · next d3 w3 hf =>
                have hfl := dFlush_flags d2 w0; rw [hf] at hfl; simp only at hfl
                rcases lingerLoop_pending_linger _ _ _ _ _ _ hpl with h1 | h1
                · rw [h1, hfl, hel, hlin] at hl; cases hl
                · rw [hfuel] at h1; cases h1
        · split at h
          · exact (shutdownBranch_registered e d0 w0 d' w' h).elim Or.inl fun h1 =>
              h1.elim (fun h2 => Or.inr (Or.inl h2)) fun h2 =>
                h2.elim (fun h3 => Or.inr (Or.inr h3)) fun h3 => by rw [hfuel] at h3; cases h3
          · split at h
            · simp at h
            · next sd d1 w1 hr =>
              simp only at h
              generalize afterRead e sd d1 w1 = ar at h
              obtain ⟨d2, w2⟩ := ar
              try simp only at h
              generalize respFlushLoop e F F d2 w2 = rf at h
              obtain ⟨k, d3, w3⟩ := rf
              try simp only at h
              split at h
              · -- `PollResponse::Upgrade` (or an error)
                split at h
                · have := (upgradeBranch_spec _ _ _ _ h).2
                  rw [this] at hnu'; simp [enterUpgrade, D.produce] at hnu'
                · simp at h
              · split at h
                · next r d4 w4 hn =>
                  simp at h; obtain ⟨rfl, rfl, rfl⟩ := h
                  obtain ⟨_, _, _, _, hp4⟩ := normalTail_ret _ _ _ _ _ _ _ _ hn
                  have := (hp4 rfl hw).2.1
                  rw [this] at hs; cases hs
                · exact ih _ _ h
  exact key 2 d w hp


/-! ## a stream error ends the connection only after everything buffered is written; an upgrade
takes the unflushed bytes along -/

/-- **C04_error_waits_for_flush.** The tail of `Dispatcher::poll` returns the stored stream error
(400 / 431 path: malformed request, over-long head) only when `write_buf` is empty: the error
response and every earlier pipelined response still buffered are written before the connection
ends with the error. -/
theorem C04_error_waits_for_flush (e : Env) (full qfull : Bool) (d d' : D) (w w' : World)
    (k : ErrKind) (h : normalTail e full qfull d w = .ret (.err k) d' w') :
    d'.wlen = 0 ∧ d.wlen = 0 := by
  unfold normalTail at h
  split at h
  · simp at h
  · have hw := (tailFlags_spec e d w).2.1
    unfold tailDecide at h
    split at h
    · next hc =>
      simp at h; obtain ⟨_, rfl, _⟩ := h
      simp only [Bool.and_eq_true, decide_eq_true_eq] at hc
      exact ⟨hc.1.2, hw ▸ hc.1.2⟩
    · split at h
      · simp at h
      · split at h
        · simp at h
        · split at h <;> simp at h

/-- **C04_upgrade_keeps_buffer.** `upgrade()` hands the unflushed response bytes to the upgraded
transport (nothing produced is dropped when the socket changes hands), and while the upgraded
connection is `Pending` its waker is stored with the socket's write side. -/
theorem C04_upgrade_keeps_buffer (d : D) :
    (enterUpgrade d).wlen = d.wlen + upgradeMarkerLen ∧
    (enterUpgrade d).produced = d.produced + upgradeMarkerLen := by
  simp [enterUpgrade, D.produce]

theorem C04_upgrade_pending_registers_write (e : Env) (F : Nat) (d d' : D) (w w' : World)
    (hu : d.upgraded = true) (h : pollTop e F d w = (.pending, d', w')) :
    (d'.wlen = 0 ∧ w'.dirty = false) ∨ (w'.sem .w).waiting = true ∨ (w'.sem .f).waiting = true := by
  unfold pollTop at h
  simp only [hu, if_true] at h
  generalize hub : upgradeBranch d w = p at h
  obtain ⟨r, d1, w1⟩ := p
  simp only at h
  split at h
  · simp at h
  · next hf =>
    simp at h; obtain ⟨rfl, rfl, rfl⟩ := h
    rcases (upgradeBranch_spec d w d1 w1 hub).1 with h1 | h1 | h1 | h1
    · exact Or.inl h1
    · exact Or.inr (Or.inl h1)
    · exact Or.inr (Or.inr h1)
    · simp at hf; rw [hf] at h1; cases h1

/-! ## the request-body channel wakes the task that polled it last -/

/-- **C04_payload_wakes_last_poller.** Whatever happened to the payload before — in particular
whichever task's waker is still stored from an earlier poll — once task `who` has polled the
request body to `Pending`, the next `feed_data` wakes `who` (the connection task's wake flag, or
the consumer task's own waker): `Inner::register` replaces a stored waker that would not wake
the current poller.  A handler may therefore read the beginning of an upload itself and hand the
stream to another task. -/
theorem C04_payload_wakes_last_poller (w : World) (rid n : Nat) (who : Who)
    (h : rid < w.chans.length) (ha : (w.chan rid).readerAlive = true)
    (hp : (chanPollNext w rid who).1 = .pending) :
    wokenOf who (feedData (chanPollNext w rid who).2 rid n) = true := by
  obtain ⟨ht, hal⟩ := chanPollNext_registers w rid who h hp
  have hl : rid < (chanPollNext w rid who).2.chans.length := by
    rw [chanPollNext_length]; exact h
  exact feedData_wakes _ rid n who hl (hal.trans ha) ht

/-- non-vacuity + the seeded scenario: the connection task polled first (its waker is stored),
then the consumer task polls to `Pending`; data wakes the consumer task -/
example :
    let w0 : World := { chans := [{}] }
    let w1 := (chanPollNext w0 0 .conn).2
    let w2 := (chanPollNext w1 0 .consumer).2
    (chanPollNext w1 0 .consumer).1 = .pending ∧ (w1.chan 0).task = some .conn ∧
    (feedData w2 0 5).consumerWoken = true ∧ (feedData w2 0 5).woken = false := by decide

/-! ## the executor never reports a stall while bytes are unflushed or a shutdown is in flight -/

open ActixModel.Exec

/-- **C04_no_stall_with_unflushed_bytes.** At an idle point (the poll returned `Pending` and
nothing has woken the task) with response bytes still unflushed, the executor always has an
event to deliver that wakes the task (the socket's write or flush side holds the waker): the
verdict `stalled` is impossible while produced bytes are not yet on the wire.  Together with
`C04_flush_terminates` (each such wake-up consumes one of the socket's finitely many `Pending`
answers) this is "all produced bytes get flushed". -/
theorem C04_no_stall_with_unflushed_bytes (e : Env) (F : Nat) (d d' : D) (w w' : World)
    (hnu : d.upgraded = false) (h : pollTop e F d w = (.pending, d', w')) (hw : w'.woken = false)
    (hun : d'.wlen > 0 ∨ w'.dirty = true) (tr : List String) :
    (fireWaiters false Src.waitable w' tr false).2.2 = true := by
  rcases C04_pending_registers_write e F d d' w w' hnu h hw with ⟨h0, hd0⟩ | h1 | h1
  · rcases hun with hu | hu
    · omega
    · rw [hd0] at hu; cases hu
  · exact fireWaiters_any false _ _ _ _ .w (by simp [Src.waitable]) h1
  · exact fireWaiters_any false _ _ _ _ .f (by simp [Src.waitable]) h1

/-- **C04_no_stall_in_shutdown.** Likewise for a connection in its shutdown procedure: a
`Pending`, not self-woken poll in shutdown mode leaves a waiter the executor can serve. -/
theorem C04_no_stall_in_shutdown (e : Env) (F : Nat) (d d' : D) (w w' : World)
    (hnu : d.upgraded = false) (h : pollTop e F d w = (.pending, d', w')) (hw : w'.woken = false)
    (hs : d'.flags.shutdown = true) (hl : d'.flags.linger = false) (hnu' : d'.upgraded = false)
    (tr : List String) :
    (fireWaiters false Src.waitable w' tr false).2.2 = true := by
  rcases C04_pending_registers_shutdown e F d d' w w' hnu h hw hs hl hnu' with h1 | h1 | h1
  · exact fireWaiters_any false _ _ _ _ .w (by simp [Src.waitable]) h1
  · exact fireWaiters_any false _ _ _ _ .f (by simp [Src.waitable]) h1
  · exact fireWaiters_any false _ _ _ _ .s (by simp [Src.waitable]) h1

end ActixModel.C04
