import ActixModel.Proofs.Flush
/-
C04 — HTTP/1 connections always progress: no lost wake-ups, all bytes flushed.

Models: `Model/Flush.lean` (`poll_flush`), `Model/DispWake.lean` (the dispatcher as a
wake-registering machine), `Model/Exec.lean` (the wake-driven executor).
-/
namespace ActixModel.C04
open ActixModel.Flush

variable {σ α : Type}

/-! ## every produced byte is written exactly once, in order -/

/-- **C04_flush_exactly_once.** For *every* socket — an arbitrary state machine `write` that may
accept any `0 < n ≤ offered` bytes, answer `Pending`, or answer `0`, adaptively — and every
interleaving `evs` of the encoder appending bytes to `write_buf` with `poll_flush` calls:

* while the connection lives, `accepted ++ write_buf = produced`  (nothing lost, nothing
  duplicated, nothing reordered across partial writes and `advance`);
* after a `WriteZero` failure the accepted bytes are still a prefix of the produced bytes;
* whenever the last `poll_flush` drained the buffer, `accepted = produced`. -/
theorem C04_flush_exactly_once (write : σ → Nat → WriteAns × σ) (s₀ : σ) (evs : List (Ev α)) :
    let x := Sess.run write ({ sock := s₀ } : Sess σ α) evs
    (x.dead = false → x.accepted ++ x.writeBuf = x.produced) ∧
    (x.dead = true → x.accepted <+: x.produced) ∧
    (x.last = some .drained → x.accepted = x.produced) := by
  intro x
  obtain ⟨h1, h2, h3⟩ := Sess.inv_run write evs _ (Sess.inv_init s₀)
  refine ⟨h1, h2, fun hl => ?_⟩
  obtain ⟨hd, hb⟩ := h3 hl
  have := h1 hd
  rw [hb, List.append_nil] at this
  exact this

/-- The same statement for the oracle-list socket of the property text: the write oracle is any
list of `accept k` / `pending` / `zero` answers (an exhausted list accepts everything). -/
theorem C04_flush_exactly_once_oracle (oracle : List WriteAns) (evs : List (Ev α)) :
    let x := Sess.run listSock ({ sock := oracle } : Sess (List WriteAns) α) evs
    (x.dead = false → x.accepted ++ x.writeBuf = x.produced) ∧
    (x.dead = true → x.accepted <+: x.produced) ∧
    (x.last = some .drained → x.accepted = x.produced) :=
  C04_flush_exactly_once listSock oracle evs

/-- non-vacuity: a session that produces, is partially flushed, produces again and is drained -/
example :
    let x := Sess.run listSock ({ sock := [.accept 2, .pending, .accept 1] } : Sess _ Nat)
      [.produce [1, 2, 3], .flush, .produce [4], .flush]
    x.accepted = [1, 2, 3, 4] ∧ x.writeBuf = [] ∧ x.last = some .drained := by decide

/-- **C04_flush_call.** One `poll_flush` call, any socket: `Pending` leaves exactly the unwritten
suffix in the buffer (`advance(written)`), a drained call has handed over the whole buffer. -/
theorem C04_flush_call (write : σ → Nat → WriteAns × σ) (buf : List α) (s : σ) :
    let o := pollFlush write buf s
    (o.res = .drained → o.buf = [] ∧ o.accepted = buf) ∧
    (o.res = .pending → o.accepted ++ o.buf = buf) ∧
    (o.res = .writeZero → o.buf = buf ∧ ∃ k, o.accepted = buf.take k) :=
  pollFlush_spec write buf s

/-- **C04_flush_pending_registers.** `poll_flush` returns `Pending` from its write loop only if
the socket itself answered `Pending` to a `poll_write` with a non-empty slice — i.e. the socket
holds the task's waker: the flush never sleeps on its own. -/
theorem C04_flush_pending_registers (write : σ → Nat → WriteAns × σ) (buf : List α) (s : σ)
    (h : (pollFlush write buf s).res = .pending) :
    ∃ s₁ offered, 0 < offered ∧ (write s₁ offered).1 = .pending ∧
      (pollFlush write buf s).sock = (write s₁ offered).2 :=
  loop_pending_from_socket write buf buf.length 0 [] s h

/-- **C04_flush_len_refines.** The length-only flush used inside the dispatcher model is the
byte-level flush seen through `List.length`. -/
theorem C04_flush_len_refines (write : σ → Nat → WriteAns × σ) (buf : List α) (s : σ) :
    let o := pollFlush write buf s
    let l := pollFlushLen write buf.length s
    l.res = o.res ∧ l.len = o.buf.length ∧ l.accepted = o.accepted.length ∧ l.sock = o.sock :=
  pollFlushLen_eq write buf s

end ActixModel.C04
