import ActixModel.Proofs.DispBounds
import ActixModel.Proofs.DispBoundsW
/-
C05 — HTTP/1 per-connection memory is bounded by configuration, not by the peer.

Model: `ActixModel/Model/DispBounds.lean` — the dispatcher's four buffers as counters of an event
machine whose guards are the tests `dispatcher.rs` / `decoder.rs` / `payload.rs` make.  Every
theorem below quantifies over **all** event lists the guards accept (all inputs, all handler /
socket / body schedules, interleaved arbitrarily) and **all** configurations `cfg`
(`h1_write_buffer_size`, the per-read capacity `readCap`, the shortest head `minHead`).
The executable scheduler `Model/DispBoundsSim.lean` (what the correspondence harness compares
with the real code) emits only events of this machine, and the driver re-checks on every run that
its event trace is accepted and reproduces its counters.
-/
namespace ActixModel.DispBounds.C05
open ActixModel.DispBounds ActixModel.Consts

/-! ### 1. unparsed input -/

/-- **C05_readbuf_bound**: after any accepted event list the read buffer holds at most
`MAX_BUFFER_SIZE - 1 + readCap` bytes (below the limit before the last read, plus that read). -/
theorem C05_readbuf_bound (cfg : Cfg) (evs : List Ev) (s : S)
    (h : run cfg init evs = some s) : s.rb ≤ h1MaxBufferSize - 1 + cfg.readCap :=
  (inv_run h).rb

/-- the mechanism: a read is accepted only below `MAX_BUFFER_SIZE`, outside the decode loop, on a
connected read side, and appends at most `readCap` -/
theorem C05_read_guard (cfg : Cfg) (s s' : S) (k : Nat) (h : step cfg s (.read k) = some s') :
    s.rb < h1MaxBufferSize ∧ s.rdDisc = false ∧ s.inDecode = false ∧ k ≤ cfg.readCap ∧
      s'.rb = s.rb + k := by
  simp only [step] at h
  split at h
  · cases h
  · rename_i hg
    simp only [Bool.or_eq_true, decide_eq_true_eq, not_or, Bool.not_eq_true, Nat.not_le,
      Nat.not_lt] at hg
    obtain ⟨⟨⟨⟨hin, hrd⟩, hlt⟩, _⟩, hcap⟩ := hg
    cases h
    exact ⟨hlt, hrd, hin, hcap, rfl⟩

example : ∃ s', step { wbs := 1, readCap := 8192, minHead := 14 } init (.read 8192) = some s' :=
  ⟨_, rfl⟩

/-- the bound is attained (it is the maximum, not merely an upper estimate): 127 reads of 1024
bytes and one of 1023 leave the buffer one byte below the limit, so one more full read is taken -/
theorem witness_readbuf_bound_tight :
    ∃ s, run { wbs := 1, readCap := 1024, minHead := 14 } init
        (List.replicate 127 (.read 1024) ++ [.read 1023, .read 1024]) = some s ∧
      s.rb = h1MaxBufferSize - 1 + 1024 := by
  refine ⟨{ init with rb := 132095 }, ?_, ?_⟩
  · decide
  · decide

/-- **C05_partial_head_refused**: whenever the decoder reports a partial head while the buffer
holds `MAX_BUFFER_SIZE` bytes or more, the only thing the machine can do with that answer is
queue a 431 and set READ_DISCONNECT (decoder.rs l.261 → dispatcher.rs l.984). -/
theorem C05_partial_head_refused (cfg : Cfg) (s : S)
    (hin : s.inDecode = true) (hhead : s.codecPl = false) (hfull : h1MaxBufferSize ≤ s.rb) :
    ∃ s', step cfg s (.dec (.needMore 0)) = some s' ∧
      s'.n431 = s.n431 + 1 ∧ s'.q = s.q + 1 ∧ s'.qErr = s.qErr + 1 ∧
      s'.rdDisc = true ∧ s'.inDecode = false ∧ s'.pl = none := by
  refine ⟨queueError { s with rb := s.rb - 0 } true, ?_, ?_⟩
  · simp [step, stepDec, hin, hhead, hfull]
  · simp [queueError]

/-- a reachable state in which the hypothesis of `C05_partial_head_refused` holds: 128 reads of
1024 bytes of an endless header line, then the decode loop is entered -/
example : ∃ s, run { wbs := 1, readCap := 1024, minHead := 14 } init
      (List.replicate 128 (.read 1024) ++ [.enter]) = some s ∧
      s.inDecode = true ∧ s.codecPl = false ∧ h1MaxBufferSize ≤ s.rb := by
  refine ⟨{ init with rb := 131072, inDecode := true }, ?_, rfl, rfl, by decide⟩
  decide

/-- conversely a 431 is produced only from a partial head in a full buffer -/
theorem C05_431_only_when_full (cfg : Cfg) (s s' : S) (e : Ev)
    (h : step cfg s e = some s') (h4 : s'.n431 ≠ s.n431) :
    e = .dec (.needMore 0) ∧ s.codecPl = false ∧ h1MaxBufferSize ≤ s.rb := by
  cases e with
  | dec d =>
    simp only [step] at h
    split at h
    case isFalse => cases h
    cases d with
    | needMore f =>
      simp only [stepDec] at h
      split at h
      · cases h
      · rename_i hg
        simp only [Bool.or_eq_true, decide_eq_true_eq, not_or, Bool.not_eq_true, Nat.not_lt,
          Bool.and_eq_true, Bool.not_eq_eq_eq_not, Bool.not_true, not_and] at hg
        split at h
        · rename_i hc
          simp only [Bool.and_eq_true, Bool.not_eq_eq_eq_not, Bool.not_true,
            decide_eq_true_eq] at hc
          have hf : f = 0 := by
            have := hg.2 hc.1
            simpa using this
          subst hf
          exact ⟨rfl, hc.1, by simpa using hc.2⟩
        · cases h; exact absurd rfl h4
    | item hh b =>
      simp only [stepDec] at h
      split at h
      · cases h
      · cases h
        exfalso; apply h4
        cases b <;> by_cases hst : s.st = St.none <;> simp [hst]
    | chunk f n =>
      simp only [stepDec] at h
      split at h
      · cases h
      · cases hpl : s.pl <;> simp only [hpl] at h <;> cases h <;> exact absurd rfl h4
    | eof f =>
      simp only [stepDec] at h
      split at h
      · cases h
      · cases hpl : s.pl <;> simp only [hpl] at h <;> cases h <;> exact absurd rfl h4
    | bad => simp only [stepDec] at h; cases h; exact absurd rfl h4
    | ioErr => simp only [stepDec] at h; cases h; exact absurd rfl h4
  | read k => simp only [step] at h; split at h <;> cases h; exact absurd rfl h4
  | enter => simp only [step] at h; split at h <;> cases h; exact absurd rfl h4
  | disconnect => simp only [step] at h; split at h <;> cases h; exact absurd rfl h4
  | pop err =>
    simp only [step] at h
    split at h
    · cases h
    · cases err <;> simp only at h <;> split at h <;> cases h <;> exact absurd rfl h4
  | handlerReady a b => simp only [step] at h; split at h <;> cases h; exact absurd rfl h4
  | bodyChunk a => simp only [step] at h; split at h <;> cases h; exact absurd rfl h4
  | bodyEnd a => simp only [step] at h; split at h <;> cases h; exact absurd rfl h4
  | wrote a => simp only [step] at h; split at h <;> cases h; exact absurd rfl h4
  | consume n =>
    simp only [step] at h
    cases hpl : s.pl with
    | none => simp [hpl] at h
    | some c => simp only [hpl] at h; split at h <;> cases h; exact absurd rfl h4
  | dropReceiver =>
    simp only [step] at h
    cases hpl : s.pl with
    | none => simp [hpl] at h
    | some c => simp only [hpl] at h; cases h; exact absurd rfl h4

/-- the hypotheses of `C05_431_only_when_full` are met by the refusal itself -/
example : ∃ s', step { wbs := 1, readCap := 1024, minHead := 14 }
      { init with rb := 131072, inDecode := true } (.dec (.needMore 0)) = some s' ∧
      s'.n431 ≠ ({ init with rb := 131072, inDecode := true } : S).n431 :=
  ⟨_, rfl, by decide⟩

/-- READ_DISCONNECT is permanent and the read buffer never grows again: after a refusal
(431/400/EOF) nothing more is taken from the peer. -/
theorem C05_nothing_read_after_refusal (cfg : Cfg) (evs : List Ev) (s s' : S)
    (hd : s.rdDisc = true) (h : run cfg s evs = some s') : s'.rdDisc = true ∧ s'.rb ≤ s.rb := by
  have key : ∀ (a b : S) (e : Ev), a.rdDisc = true → step cfg a e = some b →
      b.rdDisc = true ∧ b.rb ≤ a.rb := by
    intro a b e ha hs
    cases e with
    | read k => simp [step, ha] at hs
    | enter => simp [step, canRead, ha] at hs
    | dec d =>
      simp only [step] at hs
      split at hs
      case isFalse => cases hs
      cases d with
      | item hh bd =>
        simp only [stepDec] at hs
        split at hs
        · cases hs
        · cases hs
          cases bd <;> by_cases hst : a.st = St.none <;> simp [hst, ha]
      | chunk f n =>
        simp only [stepDec] at hs
        split at hs
        · cases hs
        · cases hpl : a.pl <;> simp only [hpl] at hs <;> cases hs <;> simp [queueError, ha]
      | eof f =>
        simp only [stepDec] at hs
        split at hs
        · cases hs
        · cases hpl : a.pl <;> simp only [hpl] at hs <;> cases hs <;> simp [queueError, ha]
      | needMore f =>
        simp only [stepDec] at hs
        split at hs
        · cases hs
        · split at hs <;> cases hs <;> simp [queueError, ha]
      | bad => simp only [stepDec] at hs; cases hs; simp [queueError]
      | ioErr => simp only [stepDec] at hs; cases hs; simp
    | disconnect => simp only [step] at hs; split at hs <;> cases hs; simp
    | pop err =>
      simp only [step] at hs
      split at hs
      · cases hs
      · cases err <;> simp only at hs <;> split at hs <;> cases hs <;> simp [ha]
    | handlerReady x y => simp only [step] at hs; split at hs <;> cases hs; simp [ha]
    | bodyChunk x => simp only [step] at hs; split at hs <;> cases hs; simp [ha]
    | bodyEnd x => simp only [step] at hs; split at hs <;> cases hs; simp [ha]
    | wrote x => simp only [step] at hs; split at hs <;> cases hs; simp [ha]
    | consume n =>
      simp only [step] at hs
      cases hpl : a.pl with
      | none => simp [hpl] at hs
      | some c => simp only [hpl] at hs; split at hs <;> cases hs; simp [ha]
    | dropReceiver =>
      simp only [step] at hs
      cases hpl : a.pl with
      | none => simp [hpl] at hs
      | some c => simp only [hpl] at hs; cases hs; simp [ha]
  induction evs generalizing s with
  | nil => simp [run] at h; subst h; exact ⟨hd, Nat.le_refl _⟩
  | cons e es ih =>
    simp only [run] at h
    cases hs : step cfg s e with
    | none => simp [hs] at h
    | some s1 =>
      simp only [hs] at h
      obtain ⟨h1, h2⟩ := key s s1 e hd hs
      obtain ⟨h3, h4⟩ := ih s1 h1 h
      exact ⟨h3, Nat.le_trans h4 h2⟩

/-- a state after a refusal from which a non-empty event list is accepted (the queued 431 is
popped and written): the read buffer stays where it was -/
example : ∃ s', run { wbs := 1, readCap := 1024, minHead := 14 }
      { init with rb := 131072, q := 1, qErr := 1, rdDisc := true, n431 := 1 }
      [.pop (some 123), .wrote 123] = some s' ∧ s'.rb = 131072 :=
  ⟨{ init with rb := 131072, rdDisc := true, n431 := 1, ub := 123 }, by decide, rfl⟩

/-! ### 2. request body read ahead of the handler -/

/-- **C05_payload_bound**: the request-body channel never holds more than
`32 768 - 1 + (MAX_BUFFER_SIZE - 1 + readCap)` bytes: it was below its limit when the decode loop
was entered, and that loop can move at most one read buffer into it.  (The test is made once per
`poll_request`, not per chunk, so "32 768" alone is *not* a bound — see the witness.) -/
theorem C05_payload_bound (cfg : Cfg) (evs : List Ev) (s : S) (c : Chan)
    (h : run cfg init evs = some s) (hc : s.pl = some c) :
    c.len ≤ payloadMaxBufferSize - 1 + (h1MaxBufferSize - 1 + cfg.readCap) := by
  have := (inv_run h).pay c hc
  simp only [payloadMax, readBufMax] at this
  omega

/-- **C05_backpressure_flag**: the flag `can_read` consults says exactly "below the limit". -/
theorem C05_backpressure_flag (cfg : Cfg) (evs : List Ev) (s : S) (c : Chan)
    (h : run cfg init evs = some s) (hc : s.pl = some c) (hd : c.dropped = false) :
    (c.needRead = true ↔ c.len < payloadMaxBufferSize) := by
  have := ((inv_run h).chan c hc).1 hd
  rw [this]; simp

/-- the decode loop is entered only while the handler's channel is below its limit (or gone) -/
theorem C05_decode_needs_room (cfg : Cfg) (evs : List Ev) (s s' : S) (c : Chan)
    (h : run cfg init evs = some s) (he : step cfg s .enter = some s')
    (hc : s.pl = some c) (hd : c.dropped = false) : c.len < payloadMaxBufferSize := by
  have hflag := C05_backpressure_flag cfg evs s c h hc hd
  simp only [step] at he
  split at he
  · cases he
  · rename_i hg
    simp only [Bool.or_eq_true, decide_eq_true_eq, not_or, Bool.not_eq_true,
      Bool.not_eq_eq_eq_not, Bool.not_true] at hg
    have hcr' : (canRead s) = true := by
      cases hx : canRead s
      · exact absurd hx hg.2
      · rfl
    simp only [canRead, hc, hd, Bool.or_false, Bool.and_eq_true] at hcr'
    exact hflag.mp hcr'.2

/-- concrete run in which the channel exceeds 32 768: the whole read buffer is decoded into it
by one `poll_request` (the handler never reads) -/
theorem witness_payload_exceeds_limit :
    ∃ s c, run { wbs := 1, readCap := 1024, minHead := 14 } init
        ([.read 60, .enter, .dec (.item 60 true), .dec (.needMore 0)] ++
         List.replicate 40 (.read 1024) ++ [.enter, .dec (.chunk 0 40960)]) = some s ∧
      s.pl = some c ∧ c.len = 40960 ∧ payloadMaxBufferSize < c.len := by
  refine ⟨{ init with st := .svc, pl := some ⟨40960, false, false⟩, codecPl := true,
                       inDecode := true }, ⟨40960, false, false⟩, ?_, rfl, rfl, by decide⟩
  decide

/-- the payload bound is attained: the channel is one byte below its limit when a full read
buffer (`MAX_BUFFER_SIZE - 1 + readCap` bytes of body) is decoded into it -/
theorem witness_payload_bound_tight :
    ∃ s c, run { wbs := 1, readCap := 1024, minHead := 14 } init
        ([.read 60, .enter, .dec (.item 60 true), .dec (.needMore 0)] ++
         List.replicate 31 (.read 1024) ++ [.read 1023, .enter, .dec (.chunk 0 32767),
           .dec (.needMore 0)] ++
         List.replicate 127 (.read 1024) ++ [.read 1023, .read 1024, .enter,
           .dec (.chunk 0 132095)]) = some s ∧
      s.pl = some c ∧
      c.len = payloadMaxBufferSize - 1 + (h1MaxBufferSize - 1 + 1024) := by
  refine ⟨{ init with st := .svc, pl := some ⟨164862, false, false⟩, codecPl := true,
                       inDecode := true }, ⟨164862, false, false⟩, ?_, rfl, ?_⟩
  · decide +kernel
  · decide

/-! ### 3. queued pipelined requests -/

/-- **C05_queue_bound**: at most
`MAX_PIPELINED_MESSAGES - 1 + (MAX_BUFFER_SIZE - 1 + readCap) / minHead + 1` messages are ever
queued — **not** `MAX_PIPELINED_MESSAGES`: the limit is tested once per `poll_request` call, the
loop then decodes the whole read buffer (one message per ≥ `minHead` bytes), and one error message
may be appended. -/
theorem C05_queue_bound (cfg : Cfg) (hm : 0 < cfg.minHead) (evs : List Ev) (s : S)
    (h : run cfg init evs = some s) :
    s.q ≤ h1MaxPipelined - 1 + (h1MaxBufferSize - 1 + cfg.readCap) / cfg.minHead + 1 := by
  have hi := inv_run h
  have hq := hi.queue
  have h1 := hi.err_one
  have hrd : (if s.inDecode then s.rb else 0) ≥ 0 := Nat.zero_le _
  -- minHead * q ≤ minHead * (P - 1) + R + minHead
  have hE : cfg.minHead * s.qErr ≤ cfg.minHead := by
    calc cfg.minHead * s.qErr ≤ cfg.minHead * 1 := Nat.mul_le_mul_left _ h1
      _ = cfg.minHead := Nat.mul_one _
  have hR : readBufMax cfg = h1MaxBufferSize - 1 + cfg.readCap := rfl
  rw [hR] at hq
  generalize h1MaxBufferSize - 1 + cfg.readCap = R at hq ⊢
  generalize h1MaxPipelined - 1 = P at hq ⊢
  -- q - (P + 1) ≤ R / minHead
  have : (s.q - (P + 1)) * cfg.minHead ≤ R := by
    by_cases hle : s.q ≤ P + 1
    · have : s.q - (P + 1) = 0 := by omega
      simp [this]
    · have hsplit : s.q = (s.q - (P + 1)) + (P + 1) := by omega
      have hmul : cfg.minHead * s.q =
          cfg.minHead * (s.q - (P + 1)) + (cfg.minHead * P + cfg.minHead) := by
        conv => lhs; rw [hsplit]
        rw [Nat.mul_add, Nat.mul_add, Nat.mul_one]
      rw [Nat.mul_comm]
      omega
  have := (Nat.le_div_iff_mul_le hm).mpr this
  omega

/-- the number for the transport the code is written for (a read of at most `HW_BUFFER_SIZE`)
and the shortest head `httparse` accepts (`"A / HTTP/1.1\n\n"`, 14 bytes): 9 963 messages -/
example (h1 : h1MaxBufferSize = 131072) (h2 : h1HwBufferSize = 8192) (h3 : h1MaxPipelined = 16) :
    queueMax { wbs := 32768, readCap := h1HwBufferSize, minHead := 14 } = 9963 := by
  simp [queueMax, readBufMax, h1, h2, h3]

/-- … and for a transport that fills whatever `BytesMut` offers (observed: 131 073): 18 740 -/
example (h1 : h1MaxBufferSize = 131072) (h3 : h1MaxPipelined = 16) :
    queueMax { wbs := 32768, readCap := h1MaxBufferSize + 1, minHead := 14 } = 18740 := by
  simp [queueMax, readBufMax, h1, h3]

/-- the decode loop is entered only below `MAX_PIPELINED_MESSAGES` -/
theorem C05_decode_needs_queue_room (cfg : Cfg) (s s' : S) (he : step cfg s .enter = some s') :
    s.q < h1MaxPipelined := by
  simp only [step] at he
  split at he
  · cases he
  · rename_i hg
    simp only [Bool.or_eq_true, decide_eq_true_eq, not_or, Bool.not_eq_true, Nat.not_le] at hg
    exact hg.1.2

example : ∃ s', step { wbs := 1, readCap := 1024, minHead := 14 } { init with q := 15 } .enter = some s' :=
  ⟨_, rfl⟩

/-- `MAX_PIPELINED_MESSAGES` itself is not a bound: one read of 1024 bytes holding 19 requests of
18 bytes queues 18 of them behind the one in service -/
theorem witness_queue_exceeds_max_pipelined :
    ∃ s, run { wbs := 1, readCap := 1024, minHead := 14 } init
        ([.read 1024, .enter] ++ List.replicate 19 (.dec (.item 18 false))) = some s ∧
      h1MaxPipelined < s.q := by
  refine ⟨{ init with rb := 682, q := 18, st := .svc, inDecode := true }, ?_, ?_⟩
  · decide
  · decide

/-! ### 3b. everything taken from the socket and not yet handed to a handler -/

/-- **C05_total_readahead_bound**: in the weighted machine (`Model/DispBoundsW.lean`) the input
bytes held anywhere ahead of the handlers — read buffer, heads and buffered bodies of all queued
pipelined requests, body channel of the request in service — never exceed

  `R + (15 · (R + P) + R) + P`,   `R = MAX_BUFFER_SIZE - 1 + readCap`, `P = 32 768 - 1 + R`

(15 full requests queued when the decode loop was last entered, one read buffer decoded by that
loop, one unparsed read buffer, one full channel): a constant of the configuration, about 5.1 MB
for `readCap = HW_BUFFER_SIZE` — not the 160 kB the two `MAX_BUFFER_SIZE` constants suggest. -/
theorem C05_total_readahead_bound (cfg : Cfg) (evs : List Ev) (x : SW)
    (h : runW cfg initW evs = some x) : heldInput x ≤ heldMax cfg := by
  have hi := invW_run evs initW x (invW_init cfg) h
  have hrb := hi.base.rb
  have hcur := hi.curb
  have htail := hi.tail
  have hq : queuedBytes x.ws ≤ (h1MaxPipelined - 1) * msgMax cfg + tailSum (h1MaxPipelined - 1) x.ws := by
    apply queued_le
    intro p hp
    have := hi.all p hp
    simp only [weight, msgMax]
    omega
  have : tailSum (h1MaxPipelined - 1) x.ws ≤ readBufMax cfg := by
    have : 0 ≤ (if x.s.inDecode then x.s.rb else 0) := Nat.zero_le _
    omega
  simp only [heldInput, heldMax]
  omega

/-- every run of the weighted machine is a run of the plain one, so all theorems above apply to
its `s` component -/
theorem C05_weighted_refines (cfg : Cfg) (evs : List Ev) (x : SW)
    (h : runW cfg initW evs = some x) : run cfg init evs = some x.s :=
  runW_run evs initW x h

/-- the number for HW-sized reads -/
example (h1 : h1MaxBufferSize = 131072) (h2 : h1HwBufferSize = 8192) (h3 : h1MaxPipelined = 16)
    (h4 : payloadMaxBufferSize = 32768) :
    heldMax { wbs := 32768, readCap := h1HwBufferSize, minHead := 14 } = 5119951 := by
  simp [heldMax, msgMax, payloadMax, readBufMax, h1, h2, h3, h4]

/-- a non-trivial weighted run: one request in service, two queued (the second with 100 buffered
body bytes), 7 unparsed bytes -/
example : ∃ x, runW { wbs := 1, readCap := 1024, minHead := 14 } initW
      [.read 200, .enter, .dec (.item 18 false), .dec (.item 20 false), .dec (.item 55 true),
       .dec (.chunk 0 100), .dec (.needMore 0)] = some x ∧ heldInput x = 182 := by
  refine ⟨{ s := { init with rb := 7, q := 2, st := .svc, pl := some ⟨100, true, false⟩,
                               codecPl := true },
            ws := [(20, 0), (55, 100)], cur := 0 }, ?_, ?_⟩
  · decide
  · decide

/-! ### 4. response bytes buffered ahead of the socket -/

/-- encodings of body chunks and terminators are at most `G` bytes -/
def EncLe (G : Nat) : Ev → Prop
  | .bodyChunk enc => enc ≤ G
  | .bodyEnd enc => enc ≤ G
  | _ => True

/-- **C05_writebuf_general**: the write buffer never exceeds
`h1_write_buffer_size - 1 + G + ub`, where `G` bounds one encoded body chunk and `ub` is the
number of bytes appended *without any size test* (response heads, error heads) since the last
tested append.  For all `h1_write_buffer_size > 0`, all schedules. -/
theorem C05_writebuf_general (cfg : Cfg) (hw : 0 < cfg.wbs) (G : Nat) (evs : List Ev) (s : S)
    (hG : ∀ e ∈ evs, EncLe G e) (h : run cfg init evs = some s) :
    s.wb ≤ cfg.wbs - 1 + G + s.ub := by
  have : s.wb + 1 ≤ cfg.wbs + G + s.ub := by
    refine run_induct (cfg := cfg) (fun s => s.wb + 1 ≤ cfg.wbs + G + s.ub) (EncLe G) ?_
      evs init s (by simp [init]; omega) hG h
    intro a e b ha hq hs
    cases e with
    | read k => simp only [step] at hs; split at hs <;> cases hs; exact ha
    | enter => simp only [step] at hs; split at hs <;> cases hs; exact ha
    | dec d =>
      simp only [step] at hs
      split at hs
      case isFalse => cases hs
      cases d with
      | item hh bd =>
        simp only [stepDec] at hs
        split at hs
        · cases hs
        · cases hs
          cases bd <;> by_cases hst : a.st = St.none <;> simp [hst] <;> exact ha
      | chunk f n =>
        simp only [stepDec] at hs
        split at hs
        · cases hs
        · cases hpl : a.pl <;> simp only [hpl] at hs <;> cases hs <;> exact ha
      | eof f =>
        simp only [stepDec] at hs
        split at hs
        · cases hs
        · cases hpl : a.pl <;> simp only [hpl] at hs <;> cases hs <;> exact ha
      | needMore f =>
        simp only [stepDec] at hs
        split at hs
        · cases hs
        · split at hs <;> cases hs <;> exact ha
      | bad => simp only [stepDec] at hs; cases hs; exact ha
      | ioErr => simp only [stepDec] at hs; cases hs; exact ha
    | disconnect => simp only [step] at hs; split at hs <;> cases hs; exact ha
    | pop err =>
      simp only [step] at hs
      split at hs
      · cases hs
      · cases err <;> simp only at hs <;> split at hs <;> cases hs
        · exact ha
        · simp only; omega
    | handlerReady x y => simp only [step] at hs; split at hs <;> cases hs; simp only; omega
    | bodyChunk x =>
      simp only [step] at hs
      split at hs
      · cases hs
      · rename_i hg
        simp only [Bool.or_eq_true, decide_eq_true_eq, not_or, Nat.not_le] at hg
        cases hs
        simp only [EncLe] at hq
        simp only; omega
    | bodyEnd x =>
      simp only [step] at hs
      split at hs
      · cases hs
      · rename_i hg
        simp only [Bool.or_eq_true, decide_eq_true_eq, not_or, Nat.not_le] at hg
        cases hs
        simp only [EncLe] at hq
        simp only; omega
    | wrote x =>
      simp only [step] at hs
      split at hs
      · cases hs
      · cases hs; simp only; omega
    | consume n =>
      simp only [step] at hs
      cases hpl : a.pl with
      | none => simp [hpl] at hs
      | some c => simp only [hpl] at hs; split at hs <;> cases hs; exact ha
    | dropReceiver =>
      simp only [step] at hs
      cases hpl : a.pl with
      | none => simp [hpl] at hs
      | some c => simp only [hpl] at hs; cases hs; exact ha
  omega

/-- the mechanism: a body chunk is pulled only while the buffer is below the configured size -/
theorem C05_chunk_guard (cfg : Cfg) (s s' : S) (enc : Nat)
    (h : step cfg s (.bodyChunk enc) = some s') : s.wb < cfg.wbs ∧ s'.wb = s.wb + enc := by
  simp only [step] at h
  split at h
  · cases h
  · rename_i hg
    simp only [Bool.or_eq_true, decide_eq_true_eq, not_or, Nat.not_le] at hg
    cases h
    exact ⟨hg.2, rfl⟩

example : ∃ s', step { wbs := 90, readCap := 1024, minHead := 14 }
      { init with wb := 89, st := .send } (.bodyChunk 1006) = some s' ∧ s'.wb = 1095 := ⟨_, rfl, rfl⟩

/-- every response has a body, heads and error heads are at most `H` bytes -/
def HeadOk (H : Nat) : Ev → Prop
  | .handlerReady head hasBody => hasBody = true ∧ head ≤ H
  | .pop (some h) => h ≤ H
  | _ => True

/-
The full statement the property makes —

  theorem C05_writebuf_bound (cfg) (hw : 0 < cfg.wbs) (G H) (evs) (s)
      (hG : ∀ e ∈ evs, EncLe G e) (hH : heads ≤ H) (h : run cfg init evs = some s) :
      s.wb ≤ cfg.wbs - 1 + G + 2 * H

— is FALSE of the current code: a response without a body (`BodySize::None` / `Sized(0)`) is
encoded by `send_response` with no size test and leaves `State::None`, so the next pipelined
request is decoded, handled and its head appended in the same loop; nothing looks at
`write_buf.len()` until a body chunk is pulled.  See `witness_writebuf_unbounded` (every bound is
exceeded) and the known finding `writebuf-bodyless-pipelined`.  What holds is the statement with
the extra hypothesis that every response carries a body:
-/

/-- **C05_writebuf_bound_partial**: if every response has a body, the write buffer never exceeds
`h1_write_buffer_size - 1 + one encoded chunk + two heads` (the head of the next pipelined
response may follow the chunk that crossed the limit; a single error head may follow that). -/
theorem C05_writebuf_bound_partial (cfg : Cfg) (hw : 0 < cfg.wbs) (G H : Nat) (evs : List Ev)
    (s : S) (hG : ∀ e ∈ evs, EncLe G e) (hH : ∀ e ∈ evs, HeadOk H e)
    (h : run cfg init evs = some s) : s.wb ≤ cfg.wbs - 1 + G + 2 * H := by
  have hgen := C05_writebuf_general cfg hw G evs s hG h
  -- `ub` is at most one head while a body is being sent, plus the one error head
  let U : S → Nat := fun s =>
    (if s.st = St.send then H else 0) + (if s.rdDisc = true ∧ s.qErr = 0 then H else 0)
  have hub : Inv cfg s ∧ s.ub ≤ U s := by
    refine run_induct (cfg := cfg) (fun s => Inv cfg s ∧ s.ub ≤ U s) (HeadOk H) ?_
      evs init s ⟨inv_init cfg, by simp [init, U]⟩ hH h
    intro a e b ⟨hia, ha⟩ hq hs
    refine ⟨inv_step hia hs, ?_⟩
    have hdc := hia.dec_conn
    have hed := hia.err_disc
    have he1 := hia.err_one
    simp only [U] at ha ⊢
    cases e with
    | read k => simp only [step] at hs; split at hs <;> cases hs; exact ha
    | enter => simp only [step] at hs; split at hs <;> cases hs; exact ha
    | dec d =>
      simp only [step] at hs
      split at hs
      case isFalse => cases hs
      rename_i hin
      have hnd := hdc hin
      have he0 : a.qErr = 0 := by
        cases hz : a.qErr with
        | zero => rfl
        | succ k => have := hed (by omega); simp [hnd] at this
      cases d with
      | item hh bd =>
        simp only [stepDec] at hs
        split at hs
        · cases hs
        · cases hs
          cases bd <;> cases hst' : a.st <;> simp [hst', hnd, he0] at ha ⊢ <;> omega
      | chunk f n =>
        simp only [stepDec] at hs
        split at hs
        · cases hs
        · cases hpl : a.pl <;> simp only [hpl] at hs <;> cases hs <;>
            cases hst' : a.st <;> simp [hst', hnd, he0, queueError] at ha ⊢ <;> omega
      | eof f =>
        simp only [stepDec] at hs
        split at hs
        · cases hs
        · cases hpl : a.pl <;> simp only [hpl] at hs <;> cases hs <;>
            cases hst' : a.st <;> simp [hst', hnd, he0, queueError] at ha ⊢ <;> omega
      | needMore f =>
        simp only [stepDec] at hs
        split at hs
        · cases hs
        · split at hs <;> cases hs <;>
            cases hst' : a.st <;> simp [hst', hnd, he0, queueError] at ha ⊢ <;> omega
      | bad =>
        simp only [stepDec] at hs; cases hs
        cases hst' : a.st <;> simp [hst', hnd, he0, queueError] at ha ⊢ <;> omega
      | ioErr =>
        simp only [stepDec] at hs; cases hs
        cases hst' : a.st <;> simp [hst', hnd, he0] at ha ⊢ <;> omega
    | disconnect =>
      simp only [step] at hs
      split at hs
      · cases hs
      · cases hs
        cases hst' : a.st <;> by_cases hrd : a.rdDisc = true <;> by_cases hqe : a.qErr = 0 <;>
          simp [hst', hrd, hqe] at ha ⊢ <;> omega
    | pop err =>
      simp only [step] at hs
      split at hs
      · cases hs
      · rename_i hg
        simp only [Bool.or_eq_true, decide_eq_true_eq, not_or, Bool.not_eq_true] at hg
        obtain ⟨⟨hin, hst⟩, hq0⟩ := hg
        cases err with
        | some hh =>
          simp only at hs
          split at hs
          · cases hs
          · rename_i he
            cases hs
            simp only [HeadOk] at hq
            have hrd : a.rdDisc = true := hed (by omega)
            have hq1 : a.qErr = 1 := by omega
            have hst' : a.st = St.none := by simpa using hst
            simp [hst', hrd, hq1] at ha ⊢
            omega
        | none =>
          simp only at hs
          split at hs
          · cases hs
          · cases hs
            have hst' : a.st = St.none := by simpa using hst
            simp [hst'] at ha ⊢
            exact ha
    | handlerReady head hasBody =>
      simp only [step] at hs
      split at hs
      · cases hs
      · rename_i hst
        simp only [ne_eq, Decidable.not_not] at hst
        cases hs
        simp only [HeadOk] at hq
        obtain ⟨hb, hh⟩ := hq
        subst hb
        simp only [hst] at ha ⊢
        simp at ha ⊢
        omega
    | bodyChunk x =>
      simp only [step] at hs; split at hs <;> cases hs; simp
    | bodyEnd x =>
      simp only [step] at hs; split at hs <;> cases hs; simp
    | wrote x => simp only [step] at hs; split at hs <;> cases hs; exact ha
    | consume n =>
      simp only [step] at hs
      cases hpl : a.pl with
      | none => simp [hpl] at hs
      | some c => simp only [hpl] at hs; split at hs <;> cases hs; exact ha
    | dropReceiver =>
      simp only [step] at hs
      cases hpl : a.pl with
      | none => simp [hpl] at hs
      | some c => simp only [hpl] at hs; cases hs; exact ha
  have : U s ≤ 2 * H := by
    simp only [U]
    split <;> split <;> omega
  omega

/-- the hypotheses of the partial theorem are satisfiable by a non-trivial run: one request,
answered with a head of 84 bytes and two chunks, the second pulled while 1 byte below the limit -/
example : ∃ s, run { wbs := 90, readCap := 1024, minHead := 14 } init
      [.read 18, .enter, .dec (.item 18 false), .dec (.needMore 0),
       .handlerReady 84 true, .bodyChunk 5, .bodyChunk 1006, .wrote 100] = some s ∧
      s.wb = 995 := ⟨{ init with wb := 995, st := .send }, by decide, rfl⟩

/-- one pipelined request answered without a body, on a socket that accepts nothing -/
def bodylessCycle (h H : Nat) : List Ev :=
  [.read h, .enter, .dec (.item h false), .dec (.needMore 0), .handlerReady H false]

def bodylessFlood (h H : Nat) : Nat → List Ev
  | 0 => []
  | n + 1 => bodylessCycle h H ++ bodylessFlood h H n

/-- **witness_writebuf_unbounded**: for every configuration (any `h1_write_buffer_size`) and
every `N` there is an accepted run — `N` pipelined requests, each answered at once with a head of
`H` bytes and no body, the socket accepting nothing — after which the write buffer holds `N * H`
bytes.  No function of the configuration bounds it. -/
theorem witness_writebuf_unbounded (cfg : Cfg) (hm : 0 < cfg.minHead)
    (hc : cfg.minHead ≤ cfg.readCap) (H N : Nat) :
    ∃ s, run cfg init (bodylessFlood cfg.minHead H N) = some s ∧ s.wb = N * H ∧
      (∀ e ∈ bodylessFlood cfg.minHead H N, EncLe 0 e) := by
  have cyc : ∀ w : Nat, run cfg { init with wb := w, ub := w } (bodylessCycle cfg.minHead H) =
      some { init with wb := w + H, ub := w + H } := by
    intro w
    have h0 : ¬ (h1MaxBufferSize ≤ 0) := by decide
    have h1 : ¬ (cfg.minHead = 0) := by omega
    have h2 : ¬ (cfg.readCap < cfg.minHead) := by omega
    have h3 : ¬ (h1MaxPipelined ≤ 0) := by decide
    simp [bodylessCycle, run, step, stepDec, init, canRead, h0, h1, h2, h3]
  have gen : ∀ (n w : Nat), ∃ s, run cfg { init with wb := w, ub := w }
      (bodylessFlood cfg.minHead H n) = some s ∧ s.wb = w + n * H := by
    intro n
    induction n with
    | zero => intro w; exact ⟨_, rfl, by simp⟩
    | succ n ih =>
      intro w
      obtain ⟨s, hs, hw⟩ := ih (w + H)
      refine ⟨s, ?_, ?_⟩
      · simp only [bodylessFlood, run_append, cyc w, Option.bind]
        exact hs
      · rw [hw, Nat.succ_mul]; omega
  obtain ⟨s, hs, hw⟩ := gen N 0
  refine ⟨s, hs, by simpa using hw, ?_⟩
  intro e he
  have : ∀ n, ∀ e ∈ bodylessFlood cfg.minHead H n, EncLe 0 e := by
    intro n
    induction n with
    | zero => intro e he; simp [bodylessFlood] at he
    | succ n ih =>
      intro e he
      simp only [bodylessFlood, List.mem_append] at he
      cases he with
      | inl h =>
        simp only [bodylessCycle, List.mem_cons, List.mem_nil_iff, or_false] at h
        rcases h with h | h | h | h | h <;> subst h <;> simp [EncLe]
      | inr h => exact ih e h
  exact this N e he

/-- the same on concrete numbers (kernel-evaluated): `h1_write_buffer_size = 1`, heads of 75
bytes, three pipelined bodyless responses ⇒ 225 bytes buffered > 1 - 1 + 0 + 2·75 -/
theorem witness_writebuf_exceeds_bound :
    ∃ s, run { wbs := 1, readCap := 1024, minHead := 18 } init (bodylessFlood 18 75 3) = some s ∧
      ¬ (s.wb ≤ 1 - 1 + 0 + 2 * 75) := by
  refine ⟨{ init with wb := 225, ub := 225 }, ?_, ?_⟩
  · decide
  · decide

end ActixModel.DispBounds.C05
