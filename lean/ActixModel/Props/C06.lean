import ActixModel.Proofs.DispTimersG
/-
C06 — HTTP/1 connections are time-bounded (slow head, keep-alive, shutdown, drain).
Model: `ActixModel/Model/DispTimers.lean` (one event = one `Dispatcher::poll` with the answers of
every oracle it consults and the two clocks); helper lemmas: `ActixModel/Proofs/DispTimers{,B,C}.lean`.

All theorems quantify over *every* configuration (each timer possibly disabled), every state
reachable by any sequence of polls, and every oracle answer (bytes arriving, EOF, handler / body
readiness, `poll_write` / `poll_flush` / `poll_shutdown` Ready or Pending, signal) — i.e. over all
schedules.  Clock assumptions are stated where needed (`cached ≤ now`, monotone `now`).
-/
namespace ActixModel.Props.C06
open ActixModel.DispTimers

/-- states reachable from `Dispatcher::new` by any sequence of polls -/
inductive Reach (c : Cfg) (sig : Bool) : St → Prop
  | init : Reach c sig (St.init c sig)
  | step {s : St} (i : In) : Reach c sig s → Reach c sig (poll c s i).s

/-- every reachable state satisfies the invariant `Inv` (idle ⇔ KEEP_ALIVE bookkeeping, head timer
runs only before the first decoded head, the two `debug_assert!`s, WRITE_DISCONNECT only without a
disconnect timeout, nothing but response bytes in the write buffer) -/
theorem C06_invariant {c : Cfg} {sig : Bool} {s : St} (h : Reach c sig s) : Inv c s := by
  induction h with
  | init => exact Inv.init c sig
  | step i _ ih => exact poll_inv c _ i ih

/-- request processing (decode loop + response loop, any handler / body oracle, any fuel) never
touches the keep-alive timer, the shutdown timer, WRITE_DISCONNECT or DRAINING, and can only clear
the head timer and raise SHUTDOWN / LINGER -/
theorem C06_processing_frame (c : Cfg) (i : In) (f : Nat) (s : St) (o : List Out) :
    Frame s (pollResponse c i f (pollRequest c i s).1 o).1 :=
  Frame.trans (pollRequest_frame c i s) (pollResponse_frame c i f _ o)

/-- the `debug_assert!`s of `poll_ka_timer` (keep-alive flag set, no request in flight while the
keep-alive timer runs) and `poll_shutdown_timer` (SHUTDOWN or LINGER set while the shutdown timer
runs) hold in every reachable state and in every intermediate state of a poll -/
theorem C06_debug_asserts_hold {c : Cfg} {sig : Bool} {s : St} (h : Reach c sig s) (i : In) :
    let s1 := pollHeadTimer c i (pollGraceful i (deliver i s))
    pollKaTimer c i s1 ≠ none ∧ ∀ s2, pollKaTimer c i s1 = some s2 → pollSdTimer i s2 ≠ .assertFailed := by
  have hi := pollHeadTimer_inv c i _ (pollGraceful_inv c i _ (deliver_inv c i s (C06_invariant h)))
  exact ⟨pollKaTimer_ne_none c i _ hi, fun s2 he => pollSdTimer_ne_assert c i s2 (pollKaTimer_inv c i _ s2 hi he)⟩

/-! ### sentence 3: with a disconnect timeout, shutdown never outlasts it -/

/-- states reachable by polls whose cached clock never goes backwards; `t0` = cached clock when the
connection was created, the last index = cached clock of the latest poll -/
inductive ReachT (c : Cfg) (sig : Bool) (t0 : Nat) : Nat → St → Prop
  | init : ReachT c sig t0 t0 (St.init c sig)
  | step {tc : Nat} {s : St} (i : In) : ReachT c sig t0 tc s → tc ≤ i.cached → ReachT c sig t0 i.cached (poll c s i).s

theorem ReachT.reach {c : Cfg} {sig : Bool} {t0 tc : Nat} {s : St} (h : ReachT c sig t0 tc s) : Reach c sig s := by
  induction h with
  | init => exact Reach.init
  | step i _ _ ih => exact Reach.step i ih

theorem ReachT.le {c : Cfg} {sig : Bool} {t0 tc : Nat} {s : St} (h : ReachT c sig t0 tc s) : t0 ≤ tc := by
  induction h with
  | init => exact Nat.le_refl _
  | step i _ hle ih => omega

/-- the shutdown timer's deadline is never later than `D` after the cached clock of the latest poll
(it is `cached + D` of the poll that armed it; fix 71715de removed the re-arming) -/
theorem C06_shutdown_deadline {c : Cfg} {sig : Bool} {t0 tc : Nat} {s : St} (h : ReachT c sig t0 tc s) :
    ∀ d, s.sdTimer = .active d → c.D ≠ 0 ∧ d ≤ tc + c.D := by
  induction h with
  | init => intro d hd; simp [St.init, Timer.new] at hd; split at hd <;> simp at hd
  | step i _ hle ih =>
    intro d hd
    rcases poll_sdStep c _ i d hd with h | ⟨h0, h⟩
    · have := ih d h; exact ⟨this.1, by omega⟩
    · exact ⟨h0, by omega⟩

/-- **C06_shutdown_bounded.**  Disconnect timeout `D ≠ 0`.  If a poll at runtime-clock `t` leaves
the connection waiting in SHUTDOWN (not complete, no immediate re-poll requested), then the shutdown
timer is running with a deadline `≤ t + D`, and *whatever happens afterwards* — any later events,
with `poll_flush` / `poll_shutdown` Pending for ever, bytes or EOF arriving, any clock values — the
connection future is complete after the first poll at or after `t + D`.  (tokio wakes the task at
the deadline: trusted, observed by the harness.)  False before fixes 71715de / 3e7b6bd (F13, F14). -/
theorem C06_shutdown_bounded {c : Cfg} {sig : Bool} {t0 tc : Nat} {s : St} (h : ReachT c sig t0 tc s) (hD : c.D ≠ 0)
    (i : In) (hc : tc ≤ i.cached) (hcl : i.cached ≤ i.now)
    (h1 : (poll c s i).s.complete = false) (h2 : (poll c s i).s.shutdown = true)
    (h3 : (poll c s i).s.linger = false) (h4 : (poll c s i).selfWake = false) :
    ∃ d, (poll c s i).s.sdTimer = .active d ∧ d ≤ i.now + c.D ∧
      ∀ is : List In, (∃ j ∈ is, i.now + c.D ≤ j.now) → (run c (poll c s i).s is).1.complete = true := by
  have hs : s.complete = false := by
    cases hsc : s.complete
    · rfl
    · rw [poll_complete c s i hsc] at h1; rw [hsc] at h1; exact absurd h1 (by simp)
  have harm := poll_armed c s i hD hs h1 (Or.inl h2) h4
  cases hsd : (poll c s i).s.sdTimer with
  | disabled => simp [hsd, Timer.isActive] at harm
  | inactive => simp [hsd, Timer.isActive] at harm
  | active d =>
    have hdl := (C06_shutdown_deadline (ReachT.step i h hc) d hsd).2
    refine ⟨d, rfl, by omega, ?_⟩
    intro is hex
    apply run_closing c d is _ (poll_inv c s i (C06_invariant h.reach)) (Or.inr ⟨h2, h3, hsd, h1⟩)
    obtain ⟨j, hj, hjd⟩ := hex
    exact ⟨j, hj, by omega⟩

/-- **C06_linger_bounded.**  Same for LINGER (early response to a request whose body is unread):
the timer runs with a deadline `d ≤ t + D`; at the first poll at or after `d` LINGER is over, and one
more `D` after that poll the connection is complete — whatever the peer does, including never
reading the response (fix 0e4d0ef) and never closing. -/
theorem C06_linger_bounded {c : Cfg} {sig : Bool} {t0 tc : Nat} {s : St} (h : ReachT c sig t0 tc s) (hD : c.D ≠ 0)
    (i : In) (hc : tc ≤ i.cached) (hcl : i.cached ≤ i.now)
    (h1 : (poll c s i).s.complete = false) (h3 : (poll c s i).s.linger = true)
    (h4 : (poll c s i).selfWake = false) :
    ∃ d, (poll c s i).s.sdTimer = .active d ∧ d ≤ i.now + c.D ∧
      ∀ (pre : List In) (j : In) (post : List In),
        Mono i.now (pre ++ j :: post) → (∀ x ∈ pre ++ [j], x.cached ≤ x.now) →
        d ≤ j.now → (∃ k ∈ post, j.now + c.D ≤ k.now) →
        (run c (poll c s i).s (pre ++ j :: post)).1.complete = true := by
  have hs : s.complete = false := by
    cases hsc : s.complete
    · rfl
    · rw [poll_complete c s i hsc] at h1; rw [hsc] at h1; exact absurd h1 (by simp)
  have harm := poll_armed c s i hD hs h1 (Or.inr h3) h4
  cases hsd : (poll c s i).s.sdTimer with
  | disabled => simp [hsd, Timer.isActive] at harm
  | inactive => simp [hsd, Timer.isActive] at harm
  | active d =>
    have hdl := (C06_shutdown_deadline (ReachT.step i h hc) d hsd).2
    refine ⟨d, rfl, by omega, ?_⟩
    intro pre j post hm hcl' hdj hk
    exact run_lingering c d hD pre _ i.now j post (poll_inv c s i (C06_invariant h.reach))
      (Or.inr (Or.inl ⟨h3, hsd, h1⟩)) hm hcl' hdj hk

/-! ### sentences 1 and 2: the request (head) timer and the keep-alive timer -/

/-- **deadlines.**  In every reachable state the head timer's deadline is `cached + T` and the
keep-alive timer's deadline is `cached + K` of some earlier poll: not earlier than `t0 + timeout`
(`t0` = cached clock at connection creation), not later than `latest cached + timeout`.  With
`cached ≤ now ≤ cached + skew` this is "at the timeout, up to `skew` early, never late". -/
theorem C06_timer_deadlines {c : Cfg} {sig : Bool} {t0 tc : Nat} {s : St} (h : ReachT c sig t0 tc s) :
    (∀ d, s.headTimer = .active d → c.T ≠ 0 ∧ t0 + c.T ≤ d ∧ d ≤ tc + c.T) ∧
    (∀ d, s.kaTimer = .active d → ∃ k, c.ka = .ms k ∧ t0 + k ≤ d ∧ d ≤ tc + k) := by
  induction h with
  | init =>
    constructor
    · intro d hd; simp [St.init, Timer.new] at hd; split at hd <;> simp at hd
    · intro d hd; simp [St.init, Timer.new] at hd; split at hd <;> simp at hd
  | @step tc' s' i hr hle ih =>
    have ht := poll_tstep c s' i
    have h0 := hr.le
    constructor
    · intro d hd
      rcases ht.1 d hd with h | ⟨hT, h⟩
      · have := ih.1 d h; exact ⟨this.1, this.2.1, by omega⟩
      · exact ⟨hT, by omega, by omega⟩
    · intro d hd
      rcases ht.2 d hd with h | ⟨k, hk, h⟩
      · obtain ⟨k, hk, h1, h2⟩ := ih.2 d h; exact ⟨k, hk, h1, by omega⟩
      · exact ⟨k, hk, by omega, by omega⟩

/-- **C06_slow_head (never before).**  Before the head timer's deadline `poll_head_timer` is the
identity: no 408, no SHUTDOWN from it.  (`send_error_response(408)` occurs nowhere else in the
dispatcher; in the model `pollHeadTimer` is the only place status 408 is produced.) -/
theorem C06_slow_head_not_before (c : Cfg) (i : In) (s : St) (d : Nat)
    (hk : s.headTimer = .active d) (hd : i.now < d) : pollHeadTimer c i s = s :=
  pollHeadTimer_waits c i s d hk hd

/-- **C06_slow_head (at/after the deadline).**  If no request head has been decoded (the head
timer is still running) and a poll happens at or after the deadline, then a 408 with
`Content-Length: 0` is queued behind whatever is in the write buffer, the timer is cleared (so
there is exactly one 408: fix 446aadc), and the poll ends with SHUTDOWN set. -/
theorem C06_slow_head_fires {c : Cfg} {sig : Bool} {s : St} (h : Reach c sig s) (i : In) (d : Nat)
    (hc : s.complete = false) (hk : s.headTimer = .active d) (hd : d ≤ i.now) :
    (poll c s i).s.shutdown = true ∧
    (s.draining = false → ∃ cl, (pollHeadTimer c i s).writeBuf = s.writeBuf ++ [Out.head 408 cl, Out.bodyEnd] ∧
      (pollHeadTimer c i s).headTimer = .inactive) := by
  refine ⟨poll_head_expiry c s i d hc hk hd, fun hdr => ?_⟩
  obtain ⟨cl, h1, _, h3⟩ := pollHeadTimer_fires c i s d (C06_invariant h) hdr hk hd
  exact ⟨cl, h1, h3⟩

/-- **C06_keepalive (not before).**  Before the keep-alive deadline `poll_ka_timer` does nothing;
together with `kaCancel` (l.1327: bytes read ⇒ KEEP_ALIVE and the timer are cleared before
`poll_request` runs) a request that arrives before the deadline is decoded and dispatched by the
ordinary request path. -/
theorem C06_keepalive_not_before {c : Cfg} {sig : Bool} {s : St} (h : Reach c sig s) (i : In) (d : Nat)
    (hk : s.kaTimer = .active d) (hd : i.now < d) : pollKaTimer c i s = some s :=
  pollKaTimer_waits c i s d (C06_invariant h) hk hd

/-- **C06_keepalive (idle ⇒ shutdown at/after the deadline).**  A poll at or after the keep-alive
deadline ends with SHUTDOWN set, whether or not bytes arrive in the same poll (timers are polled
before the socket is read). -/
theorem C06_keepalive_expiry {c : Cfg} {sig : Bool} {s : St} (h : Reach c sig s) (i : In) (d : Nat)
    (hc : s.complete = false) (hk : s.kaTimer = .active d) (hd : d ≤ i.now)
    (hsig : ¬ (s.graceful = true ∧ i.sig = true)) : (poll c s i).s.shutdown = true :=
  poll_ka_expiry c s i d (C06_invariant h) hc hk hd hsig

/-- **C06_keepalive (a request that arrives in time is served).**  Idle in keep-alive with deadline
`d`; a complete request arrives and the poll that reads it happens before `d` (no graceful signal
in that poll, connection not closing): the handler is called in that very poll. -/
theorem C06_keepalive_in_time_served {c : Cfg} {sig : Bool} {s : St} (h : Reach c sig s) (i : In) (d : Nat)
    (rest : List Tok) (hc : s.complete = false) (hk : s.kaTimer = .active d) (hd : i.now < d)
    (hsh : s.shutdown = false) (hl : s.linger = false) (hsig : ¬ (s.graceful = true ∧ i.sig = true))
    (hhead : s.headTimer.fired i.now = false)
    (hbuf : s.readBuf = []) (hsock : s.sockIn = []) (hrd : s.readDisc = false) (hcp : s.codecPayload = false)
    (harr : i.arrive = .G :: rest) :
    Out.call s.nextRid .k ∈ (poll c s i).outs :=
  poll_ka_in_time c s i d rest (C06_invariant h) hc hk hd hsh hl hsig hhead hbuf hsock hrd hcp harr

/-- non-vacuity of `C06_keepalive_in_time_served` / `C06_keepalive_expiry`: after one served `GET`
the state is idle with the keep-alive timer running until 2000 -/
example :
    let c : Cfg := { T := 1000, ka := .ms 2000, D := 0, halfClosed := true }
    let s := (poll c (St.init c false) { now := 0, cached := 0, arrive := [.G] }).s
    s.complete = false ∧ s.kaTimer = .active 2000 ∧ s.shutdown = false ∧ s.linger = false ∧
      s.headTimer.fired 1999 = false ∧ s.readBuf = [] ∧ s.sockIn = [] ∧ s.readDisc = false ∧
      s.codecPayload = false ∧ s.graceful = false := by decide

/-- the keep-alive timer runs only while the connection is idle: nothing in flight, nothing queued,
request body fully read, not draining -/
theorem C06_keepalive_timer_means_idle {c : Cfg} {sig : Bool} {s : St} (h : Reach c sig s)
    (hk : s.kaTimer.isActive = true) :
    s.keepAlive = true ∧ s.st = .none ∧ s.messages = [] ∧ s.payload = none ∧ s.draining = false := by
  have hi := C06_invariant h
  have hka := hi.kaT hk
  obtain ⟨a, b, c', d, _⟩ := hi.core.ka hka
  exact ⟨hka, a, b, c', d⟩

/-! ### sentence 4: graceful shutdown -/

/-- **C06_graceful (queued and later requests are not started).**  In the poll in which the
graceful-shutdown future becomes ready, and in every later poll, no handler is called — whatever
is buffered, queued or still arrives — and DRAINING stays set until the connection completes. -/
theorem C06_graceful_no_new_requests {c : Cfg} {sig : Bool} {s : St} (h : Reach c sig s) (i : In)
    (hd : s.draining = true ∨ (s.graceful = true ∧ i.sig = true)) :
    NoCall (poll c s i).outs ∧ ((poll c s i).s.complete = true ∨ (poll c s i).s.draining = true) :=
  poll_draining c s i (C06_invariant h) hd

/-- **C06_graceful (the in-flight request is still answered, with `Connection: close`).**  While
DRAINING, when the handler of the in-flight request completes — with `Ok` (→ `send_response`,
status 200) **or with `Err`** (→ `send_error_response`, the error's response, status 500) — the
response loop turns it into a response whose head carries `connection: close` (appended to the
write buffer). -/
theorem C06_graceful_inflight_answered (c : Cfg) (i : In) (s : St) (rid : Nat) (kind : ReqKind) (body : BodyKind)
    (hd : s.draining = true) (hst : s.st = .service rid kind) (hr : i.hReady rid = some body) :
    ∃ s' rest, respStep c i s = .next s' [] ∧
      s'.writeBuf = s.writeBuf ++ Out.head (if i.hErr rid then 500 else 200) true :: rest := by
  refine ⟨handlerResp c i (dropReceiver s rid) rid body, ?_⟩
  have hf := dropReceiver_fields s rid
  have hdr : (dropReceiver s rid).draining = true := by rw [hf.2.2.2.1]; exact hd
  cases body
  · refine ⟨[Out.bodyEnd], by simp [respStep, hst, hr], ?_⟩
    unfold handlerResp
    split <;>
      (simp [sendResponse, hdr, hf.2.2.2.2.1, finishResponse, closeForUnread, enterLinger]
       split <;> (try split) <;> simp)
  · refine ⟨[], by simp [respStep, hst, hr], ?_⟩
    unfold handlerResp
    split <;> simp [sendResponse, hdr, hf.2.2.2.2.1]
  · refine ⟨[], by simp [respStep, hst, hr], ?_⟩
    unfold handlerResp
    split <;> simp [sendResponse, hdr, hf.2.2.2.2.1]

/-- every response encoded while DRAINING — by `send_response` or by `send_error_response` (error
messages from the queue, the 408, service errors) — carries `connection: close` -/
theorem C06_graceful_every_response_closes (c : Cfg) (s : St) (rid status : Nat) (body : BodyKind)
    (hd : s.draining = true) :
    (∃ rest, (sendResponse c s rid status body).writeBuf = s.writeBuf ++ Out.head status true :: rest) ∧
    (∃ rest, (sendErrorResponse c s rid status body).writeBuf = s.writeBuf ++ Out.head status true :: rest) := by
  have h : ∃ rest, (sendResponse c s rid status body).writeBuf = s.writeBuf ++ Out.head status true :: rest := by
    cases body
    · refine ⟨[Out.bodyEnd], ?_⟩
      simp [sendResponse, hd, finishResponse, closeForUnread, enterLinger]
      split <;> (try split) <;> simp
    · exact ⟨[], by simp [sendResponse, hd]⟩
    · exact ⟨[], by simp [sendResponse, hd]⟩
  exact ⟨h, h⟩

/-! ### a reading of sentence 3 that is *not* true of the code

Full statement (not claimed): "from entering SHUTDOWN **or LINGER** until the connection future is
complete at most `D + skew` elapses".
```
theorem C06_close_within_one_timeout : … (poll …).s.linger = true at time t → complete by t + D + skew
```
It holds for SHUTDOWN (`C06_shutdown_bounded`) but not for LINGER: lingering waits up to `D` for the
peer to finish its request, and the socket shutdown that follows gets its own `D`
(`C06_linger_bounded`: `2 D`).  This is the designed behaviour (`lingering_timeout_uses_graceful_shutdown`
in the dispatcher's own tests), recorded here so that the bound claimed is the true one. -/

/-- witness: `D = 1000`, early response to a POST at t = 0 (LINGER until 1000), linger timeout at
1000 (SHUTDOWN, timer until 2000), `poll_shutdown` pending: still alive at 1999 > 0 + D + 500 -/
theorem witness_linger_then_shutdown_takes_two_timeouts :
    let c : Cfg := { T := 0, ka := .off, D := 1000, halfClosed := true }
    let s1 := (poll c (St.init c false) { now := 0, cached := 0, arrive := [.P], sd := false }).s
    let s2 := (poll c s1 { now := 0, cached := 0, sd := false }).s
    let s3 := (poll c s2 { now := 1000, cached := 1000, sd := false }).s
    let s4 := (poll c s3 { now := 1999, cached := 1500, sd := false }).s
    let s5 := (poll c s4 { now := 2000, cached := 2000, sd := false }).s
    s2.linger = true ∧ s2.sdTimer = .active 1000 ∧ s3.linger = false ∧ s3.shutdown = true ∧
      s3.sdTimer = .active 2000 ∧ s4.complete = false ∧ s5.complete = true := by decide

/-- non-vacuity: `GET` with `Connection: close` at t = 0, transport whose `poll_shutdown` pends:
the hypotheses of `C06_shutdown_bounded` hold (this is the F14 replay) -/
example :
    let c : Cfg := { T := 1000, ka := .ms 5000, D := 1000, halfClosed := true }
    let i : In := { now := 0, cached := 0, arrive := [.C], sd := false }
    let r := poll c (St.init c false) i
    r.s.complete = false ∧ r.s.shutdown = true ∧ r.s.linger = false ∧ r.selfWake = false ∧
      r.s.sdTimer = .active 1000 := by decide

/-- non-vacuity for LINGER: `POST` with unread body answered at once -/
example :
    let c : Cfg := { T := 1000, ka := .ms 5000, D := 700, halfClosed := true }
    let i : In := { now := 0, cached := 0, arrive := [.P], sd := false }
    let r := poll c (St.init c false) i
    let r2 := poll c r.s { now := 0, cached := 0, sd := false }
    r.selfWake = true ∧ r2.s.complete = false ∧ r2.s.linger = true ∧ r2.selfWake = false ∧
      r2.s.sdTimer = .active 700 := by decide

end ActixModel.Props.C06
