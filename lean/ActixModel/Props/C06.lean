import ActixModel.Proofs.DispTimers
/-
C06 — HTTP/1 connections are time-bounded (slow head, keep-alive, shutdown, drain).
Model: `ActixModel/Model/DispTimers.lean`; helper lemmas: `ActixModel/Proofs/DispTimers.lean`.
-/
namespace ActixModel.Props.C06
open ActixModel.DispTimers

/-- Request processing (decode loop + response loop, any handler / body oracle, any fuel) never
touches the keep-alive timer, the shutdown timer, WRITE_DISCONNECT or DRAINING, and can only clear
the head timer and raise SHUTDOWN / LINGER. -/
theorem C06_processing_frame (c : Cfg) (i : In) (f : Nat) (s : St) (o : List Out) :
    Frame s (pollResponse c i f (pollRequest c i s).1 o).1 :=
  Frame.trans (pollRequest_frame c i s) (pollResponse_frame c i f _ o)

end ActixModel.Props.C06
