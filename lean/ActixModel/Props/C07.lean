import ActixModel.Proofs.PayloadOk
/-
C07 — Request-body channel: exact bytes, truthful ending, no lost wake-ups.

Model: `Model/Payload.lean` (`Inner`, `PayloadSender`, `Payload` of `actix-http/src/h1/payload.rs`,
function by function).  Spec: `Spec/Payload.lean` — a history automaton `Hist` computed from the
observable trace only (ops issued, results returned, wakers woken) and the acceptance predicate
`StepOk`, clause by clause from the property text.

Every theorem below quantifies over **all** operation sequences `ops : List (Op β)` (any length,
any interleaving of feed_data / feed_eof / set_error / sender drop / need_read / is_dropped with
poll_next / unread_data / reader drop, any waker identities, any chunk type `β` with any size
function — in particular `β = List UInt8` with sizes on either side of the 32 KiB limit) and both
values of `Payload::create(eof)`.  Nothing is bounded; proofs are by induction over `ops` through
the invariants `Inv` and `Sim` of `Proofs/Payload.lean`.
-/
namespace ActixModel.Payload.C07
open ActixModel.Payload ActixModel.Consts

variable {β : Type} [Chunk β]
set_option linter.unusedSectionVars false

/-- chunk type used in the `example`s and `witness_*` theorems: a chunk is its length -/
local instance natChunk : Chunk Nat := ⟨id⟩

/-! ## Master statement: every trace of the model is accepted by the spec automaton -/

/-- **All four clauses at once**: for every op sequence, every single observation is acceptable
after the history before it (`StepOk`: exact data, truthful error / end / Pending, reader woken by
data/end/error/sender-drop, feeder woken by a drain below the limit, Pause only when full). -/
theorem C07_trace_accepted (eof : Bool) (ops : List (Op β)) :
    TraceOk (Hist.init eof) ops (Chan.outs (Chan.create eof) ops) :=
  traceOk_run _ _ ops (sim_create eof) (inv_create eof)

/-- the same, as a statement about the next observation after an arbitrary history -/
theorem C07_next_accepted (eof : Bool) (ops : List (Op β)) (op : Op β) :
    StepOk (hist eof ops) op (next eof ops op) :=
  stepOk_of_sim _ _ op (sim eof ops) (inv eof ops)

example : StepOk (hist false [Op.feedData (3 : Nat)]) (.pollNext 0) ⟨.poll (.data 3), []⟩ :=
  C07_next_accepted false [.feedData 3] (.pollNext 0)

/-! ## `len` bookkeeping (`self.len -= data.len()` cannot underflow) -/

theorem C07_len_exact (eof : Bool) (ops : List (Op β)) :
    (state eof ops).inner.len = sumSizes (state eof ops).inner.items :=
  (inv eof ops).len_eq

/-! ## 1. Exact bytes, in order -/

/-- **bytes_exact (ghost log)**: after any history, what the reader has been handed, followed by
what is still queued, is the ghost log: the accepted `feed_data` chunks in order, with
`unread_data` re-insertions at the reader's position. Nothing lost, duplicated or reordered. -/
theorem C07_bytes_exact (eof : Bool) (ops : List (Op β)) :
    yieldedOf (Chan.outs (Chan.create eof) ops) ++ (state eof ops).inner.items = (hist eof ops).log := by
  rw [← hist_yielded]
  exact (sim eof ops).log.symm

/-- **bytes_exact, read off the operations alone**: without `unread_data`, the chunks handed to the
reader followed by the queued ones are exactly the `feed_data` arguments issued while both
handles existed, in order (so the yielded chunks are a prefix of the fed ones). -/
theorem C07_bytes_exact_fed (eof : Bool) (ops : List (Op β))
    (hu : ops.all (fun op => !isUnread op) = true) :
    yieldedOf (Chan.outs (Chan.create eof) ops) ++ (state eof ops).inner.items = fedChunks true true ops := by
  rw [C07_bytes_exact]
  have := log_run_no_unread (Hist.init eof) ops (Chan.outs (Chan.create eof) ops)
    (outs_length _ _) hu
  simpa [hist, Hist.init] using this

example : ([Op.feedData (7 : Nat), .pollNext 0, .feedData 9]).all (fun op => !isUnread op) = true := by decide

/-- byte level, for real byte chunks: the concatenation of everything yielded is a prefix of the
concatenation of everything fed, and the rest is what is queued. -/
theorem C07_bytes_exact_bytes (eof : Bool) (ops : List (Op (List UInt8)))
    (hu : ops.all (fun op => !isUnread op) = true) :
    let _ : Chunk (List UInt8) := ⟨List.length⟩
    (yieldedOf (Chan.outs (Chan.create eof) ops)).flatten ++ ((state eof ops).inner.items).flatten
      = (fedChunks true true ops).flatten := by
  intro inst
  rw [← List.flatten_append, C07_bytes_exact_fed eof ops hu]

/-- `unread_data(b)` followed by `poll_next` hands `b` back -/
theorem C07_unread_roundtrip (eof : Bool) (ops : List (Op β)) (b : β) (w : WakerId)
    (hr : (state eof ops).readerAlive = true) :
    (Chan.outs (state eof ops) [.unreadData b, .pollNext w]).map (·.res) = [.unit, .poll (.data b)] := by
  simp [Chan.outs, Chan.run, Chan.step, hr, Inner.unreadData, Inner.pollNext, Inner.wakeIo]

/-! ## 2. Truthful ending -/

/-- **truthful_end (clean end)**: whenever a poll answers `Ready(None)`, every accepted chunk has
been handed over (nothing queued, reader holds the whole ghost log), the end of the body *was*
signalled, and no set error is still undelivered. -/
theorem C07_truthful_end (eof : Bool) (ops : List (Op β)) (w : WakerId)
    (hr : (state eof ops).readerAlive = true)
    (hres : (next eof ops (.pollNext w)).res = .poll .eos) :
    (state eof ops).inner.items = [] ∧
    yieldedOf (Chan.outs (Chan.create eof) ops) = (hist eof ops).log ∧
    (hist eof ops).eofSignalled = true ∧ (hist eof ops).errOutstanding = none := by
  have s := sim eof ops
  have ok := (C07_next_accepted eof ops (.pollNext w)).end_truthful w rfl hres (by rw [s.rAlive]; exact hr)
  have hi : (state eof ops).inner.items = [] := by rw [← outstanding_of_sim s]; exact ok.1
  refine ⟨hi, ?_, ok.2.1, ok.2.2⟩
  have := C07_bytes_exact eof ops
  rw [hi, List.append_nil] at this
  exact this

example : (next (β := Nat) false [.feedEof] (.pollNext 0)).res = Res.poll .eos := by decide

/-- a clean end is never reported on a channel created open unless `feed_eof` was called:
"never a clean end alone for a body that was cut short" -/
theorem C07_clean_end_needs_feed_eof (ops : List (Op β)) (w : WakerId)
    (hr : (state false ops).readerAlive = true)
    (hres : (next false ops (.pollNext w)).res = .poll .eos) :
    ops.any isFeedEof = true := by
  have h := (C07_truthful_end false ops w hr hres).2.2.1
  rcases eofSignalled_run _ _ _ h with h1 | h1
  · simp [Hist.init] at h1
  · exact h1

/-- **truthful_end (error)**: an error is reported only after all queued data, and it is the error
that is outstanding in the history: the last `set_error`, or `Incomplete` put there because the
sender vanished before any `feed_eof` / `set_error`. -/
theorem C07_error_truthful (eof : Bool) (ops : List (Op β)) (w : WakerId) (e : PErr)
    (hr : (state eof ops).readerAlive = true)
    (hres : (next eof ops (.pollNext w)).res = .poll (.error e)) :
    (state eof ops).inner.items = [] ∧ (hist eof ops).errOutstanding = some e := by
  have s := sim eof ops
  have ok := (C07_next_accepted eof ops (.pollNext w)).error_truthful w e rfl hres (by rw [s.rAlive]; exact hr)
  exact ⟨by rw [← outstanding_of_sim s]; exact ok.1, ok.2⟩

/-- a poll says Pending only when there is nothing to report: no data, no error, no end -/
theorem C07_pending_honest (eof : Bool) (ops : List (Op β)) (w : WakerId)
    (hr : (state eof ops).readerAlive = true)
    (hres : (next eof ops (.pollNext w)).res = .poll .pending) :
    (state eof ops).inner.items = [] ∧ (hist eof ops).eofSignalled = false ∧
      (hist eof ops).errOutstanding = none := by
  have s := sim eof ops
  have ok := (C07_next_accepted eof ops (.pollNext w)).pending_honest w rfl hres (by rw [s.rAlive]; exact hr)
  exact ⟨by rw [← outstanding_of_sim s]; exact ok.1, ok.2⟩

/-! ## 3. Reader wake-ups -/

/-- **reader_wake**: if the reader's last poll said Pending with waker `w` and nobody woke `w`
since, then the next accepted `feed_data` / `feed_eof` / `set_error`, and the sender's drop unless
an end or error had already been signalled, wakes `w`. -/
theorem C07_reader_wake (eof : Bool) (ops : List (Op β)) (op : Op β) (w : WakerId)
    (hp : (hist eof ops).parkedReader = some w)
    (hev : readerEvent (hist eof ops) op = true) :
    w ∈ (next eof ops op).wakes :=
  (C07_next_accepted eof ops op).reader_woken w hp hev

example : (hist (β := Nat) false [.pollNext 4]).parkedReader = some 4 ∧
    readerEvent (hist (β := Nat) false [.pollNext 4]) .dropSender = true := by decide

/-! ## 4. Feeder wake-ups -/

/-- **feeder_wake**: if the feeder's last `need_read` said Pause with waker `wf` and nobody woke
it since, the poll that pops a chunk — in particular the one that brings the buffer below the
limit — wakes `wf` (the reader being alive). -/
theorem C07_feeder_wake (eof : Bool) (ops : List (Op β)) (w wf : WakerId) (b : β)
    (hr : (state eof ops).readerAlive = true)
    (hp : (hist eof ops).parkedFeeder = some wf)
    (hres : (next eof ops (.pollNext w)).res = .poll (.data b)) :
    wf ∈ (next eof ops (.pollNext w)).wakes := by
  have s := sim eof ops
  have hio := s.parkedF wf hp hr
  unfold next at hres ⊢
  rw [step_pollNext_alive _ w hr] at hres ⊢
  rcases pollNext_cases (state eof ops).inner w with ⟨d, rest, hi, hr', hw⟩ | ⟨e', hi, he, hr', -⟩ | ⟨hi, he, hf, hr', -⟩ | ⟨hi, he, hf, hr', -⟩ <;>
    simp only [hr'] at hres <;> cases hres
  simp [hw, hio]

/-- the feeder is told to pause only while at least `MAX_BUFFER_SIZE` bytes are queued … -/
theorem C07_pause_only_when_full (eof : Bool) (ops : List (Op β)) (w : WakerId)
    (hres : (next eof ops (.needRead w)).res = .status .pause) :
    payloadMaxBufferSize ≤ sumSizes (state eof ops).inner.items := by
  have s := sim eof ops
  rw [← outstanding_of_sim s]
  exact (C07_next_accepted eof ops (.needRead w)).pause_full w rfl hres

/-- … hence a paused feeder cannot be stranded by a live reader: the reader's very next poll pops
a chunk and wakes it. -/
theorem C07_paused_feeder_is_woken_by_next_poll (eof : Bool) (ops : List (Op β)) (wf w : WakerId)
    (hres : (next eof ops (.needRead wf)).res = .status .pause) :
    ∃ b, next eof (ops ++ [.needRead wf]) (.pollNext w) = ⟨.poll (.data b), [wf]⟩ := by
  have hfull := C07_pause_only_when_full eof ops wf hres
  have hlen := C07_len_exact eof ops
  have hst : state eof (ops ++ [.needRead wf]) = (Chan.step (state eof ops) (.needRead wf)).1 := by
    simp only [state, exec_append, exec_singleton]
  unfold next at hres ⊢
  rw [hst]
  clear hst
  generalize state eof ops = c at *
  have hc : c.readerAlive = true ∧
      (Chan.step c (.needRead wf)).1 = { c with inner := Inner.registerIo c.inner wf } := by
    simp only [Chan.step] at hres ⊢
    cases hs : c.senderAlive <;> cases hr : c.readerAlive <;> cases hn : c.inner.needRead <;> simp_all
  rw [hc.2, step_pollNext_alive { c with inner := Inner.registerIo c.inner wf } w hc.1]
  rcases pollNext_cases (Inner.registerIo c.inner wf) w with ⟨d, rest, hi, hr', hw⟩ | ⟨e', hi, -⟩ | ⟨hi, -⟩ | ⟨hi, -⟩
  · refine ⟨d, ?_⟩
    rw [hr', hw]
    rfl
  all_goals
    simp only [Inner.registerIo] at hi
    rw [hi] at hfull
    simp [payloadMaxBufferSize] at hfull

/-! ## Ordering of the ending; the sender vanishing; error before clean end -/

/-- **poll_next ordering**: from any state with a live reader, polling (with any wakers) hands
over the queued chunks in order, one per poll, and only then reports the ending: the set error if
there is one, else the clean end if `eof`, else Pending. -/
theorem C07_drain_order (eof : Bool) (ops : List (Op β)) (ws : List WakerId) (w' : WakerId)
    (hr : (state eof ops).readerAlive = true)
    (hl : ws.length = (state eof ops).inner.items.length) :
    (Chan.outs (state eof ops) (ws.map .pollNext ++ [.pollNext w'])).map (·.res) =
      (state eof ops).inner.items.map (fun d => Res.poll (.data d)) ++
        [.poll (endAnswer (state eof ops).inner)] :=
  drain_aux _ ws w' hr hl

/-- **sender vanishes first ⇒ Incomplete after the queued data**: in any history in which no end
and no error was ever signalled, dropping the sender makes the reader receive exactly the queued
chunks and then `Incomplete` — never a clean end, never Pending. -/
theorem C07_sender_vanishes_incomplete (ops : List (Op β)) (ws : List WakerId) (w' : WakerId)
    (hs : (state false ops).senderAlive = true) (hr : (state false ops).readerAlive = true)
    (he : (hist false ops).eofSignalled = false) (hv : (hist false ops).errEver = false)
    (hl : ws.length = (state false ops).inner.items.length) :
    (Chan.outs (state false ops) (.dropSender :: (ws.map .pollNext ++ [.pollNext w']))).map (·.res) =
      .unit :: ((state false ops).inner.items.map (fun d => Res.poll (.data d)) ++
        [.poll (.error .incomplete)]) := by
  have s := sim false ops
  have hclosed : (state false ops).inner.senderClosed = false := by rw [s.closed, he, hv]; rfl
  have herr : (state false ops).inner.err = none := by
    cases h : (state false ops).inner.err with
    | none => rfl
    | some e =>
      have := (inv false ops).err_closed (by rw [h]; rfl)
      rw [hclosed] at this; cases this
  generalize state false ops = c at *
  have hstep : (Chan.step c .dropSender).2.res = .unit ∧
      (Chan.step c .dropSender).1.readerAlive = true ∧
      (Chan.step c .dropSender).1.inner.items = c.inner.items ∧
      (Chan.step c .dropSender).1.inner.err = some .incomplete := by
    simp only [Chan.step, hs, hr, Inner.closeSender, hclosed, Inner.setError, Inner.wake]
    refine ⟨by simp, by simp, ?_, ?_⟩ <;> (repeat' split) <;> simp_all
  obtain ⟨h1, h2, h3, h4⟩ := hstep
  have := drain_aux (Chan.step c .dropSender).1 ws w' h2 (by rw [h3]; exact hl)
  simp only [Chan.outs, Chan.run, List.map_cons] at this ⊢
  rw [this, h1, h3]
  simp [endAnswer, h4]

example : (state (β := Nat) false [.feedData 5, .feedData 6]).senderAlive = true ∧
    (hist (β := Nat) false [.feedData 5, .feedData 6]).eofSignalled = false ∧
    (hist (β := Nat) false [.feedData 5, .feedData 6]).errEver = false := by decide

/-- **a set error is delivered before any clean end**: if `set_error(e)` is accepted after `ops₁`
and, after any further operations `ops₂`, a poll reports the clean end, then one of the polls in
`ops₂` reported an error. -/
theorem C07_error_before_clean_end (eof : Bool) (ops₁ ops₂ : List (Op β)) (e : PErr) (w : WakerId)
    (hs : (state eof ops₁).senderAlive = true) (hr : (state eof ops₁).readerAlive = true)
    (hr2 : (state eof (ops₁ ++ .setError e :: ops₂)).readerAlive = true)
    (hres : (next eof (ops₁ ++ .setError e :: ops₂) (.pollNext w)).res = .poll .eos) :
    ∃ o ∈ Chan.outs (state eof (ops₁ ++ [.setError e])) ops₂, ∃ e', o.res = .poll (.error e') := by
  have hend := (C07_truthful_end eof _ w hr2 hres).2.2.2
  have hsplit : ops₁ ++ .setError e :: ops₂ = (ops₁ ++ [.setError e]) ++ ops₂ := by simp
  have hmid : (hist eof (ops₁ ++ [.setError e])).errOutstanding = some e := by
    have s := sim eof ops₁
    rw [hist_snoc]
    simp [Hist.step, Hist.observe, s.sAlive, s.rAlive, hs, hr]
  rw [hsplit, hist_append] at hend
  exact errOutstanding_cleared _ _ _ e hmid hend

/-- the same without ghost state: a poll said Pending with waker `w` (and did not wake `w` itself);
the very next data / end / error / first sender drop wakes `w`. -/
theorem C07_reader_wake_direct (eof : Bool) (ops : List (Op β)) (w : WakerId) (op : Op β)
    (hr : (state eof ops).readerAlive = true)
    (hpend : (next eof ops (.pollNext w)).res = .poll .pending)
    (hnw : w ∉ (next eof ops (.pollNext w)).wakes)
    (hev : readerEvent (hist eof (ops ++ [.pollNext w])) op = true) :
    w ∈ (next eof (ops ++ [.pollNext w]) op).wakes := by
  apply C07_reader_wake eof _ op w _ hev
  have s := sim eof ops
  rw [hist_snoc]
  simp [Hist.step, Hist.observe, s.rAlive, hr, hpend, Hist.unpark, hnw]

def isReaderOp : Op β → Bool
  | .pollNext _ => true
  | .unreadData _ => true
  | .dropReader => true
  | _ => false

/-- DESIGN's formulation: the reader is parked on `w`; if an operation of the other side makes
the next poll ready, that operation woke `w`. -/
theorem C07_reader_wake_if_ready (eof : Bool) (ops : List (Op β)) (op : Op β) (w w' : WakerId)
    (hp : (hist eof ops).parkedReader = some w) (hop : isReaderOp op = false)
    (hready : (next eof (ops ++ [op]) (.pollNext w')).res ≠ .poll .pending) :
    w ∈ (next eof ops op).wakes := by
  obtain ⟨hr, ht, hi, he, hf⟩ := (sim eof ops).parkedR w hp
  have hst : state eof (ops ++ [op]) = (Chan.step (state eof ops) op).1 := by
    simp only [state, exec_append, exec_singleton]
  unfold next at hready ⊢
  rw [hst] at hready
  generalize state eof ops = c at *
  obtain ⟨inner, sa, ra⟩ := c
  obtain ⟨len, eof', err, closed, nr, items, task, io⟩ := inner
  simp only at hr ht hi he hf
  subst hr ht hi he hf
  cases op <;> cases sa <;> cases closed <;> cases nr <;>
    simp_all [isReaderOp, Chan.step, Chan.senderOp, Inner.feedData, Inner.feedEof, Inner.setError,
      Inner.closeSender, Inner.wake, Inner.wakeIo, Inner.register, Inner.registerIo, Inner.pollNext]

/-- the same for the feeder, without ghost state: `need_read` said Pause with waker `wf`; the very
next poll of a live reader wakes `wf` (it necessarily pops a chunk). See also
`C07_paused_feeder_is_woken_by_next_poll`. -/
theorem C07_feeder_wake_direct (eof : Bool) (ops : List (Op β)) (wf w : WakerId)
    (hres : (next eof ops (.needRead wf)).res = .status .pause) :
    wf ∈ (next eof (ops ++ [.needRead wf]) (.pollNext w)).wakes := by
  obtain ⟨b, hb⟩ := C07_paused_feeder_is_woken_by_next_poll eof ops wf w hres
  simp [hb]

/-! ## Characterisation lemmas (observations, not claims) -/

/-- **O1** (DESIGN §6): dropping the reader wakes nobody — the two waker slots are dropped with
`Inner` — whether or not a feeder is parked. -/
theorem C07_O1_drop_reader_wakes_nobody (eof : Bool) (ops : List (Op β)) :
    (next eof ops .dropReader).wakes = [] := by
  unfold next
  simp only [Chan.step]
  split <;> rfl

/-- … and once the reader is gone, no operation ever wakes anybody again. -/
theorem C07_after_reader_drop_no_wakes (eof : Bool) (ops : List (Op β)) (op : Op β)
    (hr : (state eof ops).readerAlive = false) : (next eof ops op).wakes = [] := by
  unfold next
  cases op <;> simp only [Chan.step, Chan.senderOp, hr] <;> (repeat' split) <;> simp_all

/-- no operation wakes more than one waker -/
theorem C07_wakes_at_most_one (eof : Bool) (ops : List (Op β)) (op : Op β) :
    (next eof ops op).wakes.length ≤ 1 := by
  unfold next
  generalize state eof ops = c
  cases op <;>
    simp only [Chan.step, Chan.senderOp, Inner.feedData, Inner.feedEof, Inner.setError,
      Inner.closeSender, Inner.wake, Inner.wakeIo, Inner.pollNext] <;>
    (repeat' split) <;> simp_all

/-- witness for O1: feeder paused at 40 000 buffered bytes on waker 1, reader dropped: nobody is
woken, the feeder is still parked in the history, and only a fresh `need_read` tells it (Dropped). -/
theorem witness_O1 :
    (Chan.outs (Chan.create false) [Op.feedData (40000 : Nat), .needRead 1, .dropReader, .needRead 1]).map
        (fun o => (o.res, o.wakes)) =
      [(.unit, []), (.status .pause, []), (.unit, []), (.status .dropped, [])] ∧
    (hist false [Op.feedData (40000 : Nat), .needRead 1, .dropReader]).parkedFeeder = some 1 := by
  decide

/-- witness (observation O7): after an error has been delivered the stream does not terminate —
the next poll parks — and the sender's drop then wakes nobody (nothing new to report). -/
theorem witness_pending_after_error :
    (Chan.outs (Chan.create false) [Op.setError (β := Nat) .overflow, .pollNext 0, .pollNext 0, .dropSender]).map
        (fun o => (o.res, o.wakes)) =
      [(.unit, []), (.poll (.error .overflow), []), (.poll .pending, []), (.unit, [])] ∧
    (hist false [Op.setError (β := Nat) .overflow, .pollNext 0, .pollNext 0]).parkedReader = some 0 := by
  decide

/-- witness: a second `set_error` before delivery replaces the first; only the last is reported -/
theorem witness_error_overwritten :
    (Chan.outs (Chan.create false)
        [Op.setError (β := Nat) .overflow, .setError .encodingCorrupted, .pollNext 0, .pollNext 0]).map (·.res) =
      [.unit, .unit, .poll (.error .encodingCorrupted), .poll .pending] := by
  decide

/-- witness: the dispatcher's read-EOF path `set_error(Incomplete); feed_eof()` — data, then the
error, then the clean end -/
theorem witness_error_then_eof :
    (Chan.outs (Chan.create false)
        [Op.feedData (5 : Nat), .setError .incomplete, .feedEof, .pollNext 0, .pollNext 0, .pollNext 0]).map (·.res) =
      [.unit, .unit, .unit, .poll (.data 5), .poll (.error .incomplete), .poll .eos] := by
  decide

/-! ## Segmentation independence (byte level) -/

/-- two feeding schedules that carry the same bytes — chunked differently, interleaved differently
with polls / need_read / drops of the sender — hand the reader the same bytes once drained. -/
theorem C07_segmentation_independent (e₁ e₂ : Bool) (ops₁ ops₂ : List (Op (List UInt8)))
    (hu₁ : ops₁.all (fun op => !isUnread op) = true) (hu₂ : ops₂.all (fun op => !isUnread op) = true) :
    let _ : Chunk (List UInt8) := ⟨List.length⟩
    (fedChunks true true ops₁).flatten = (fedChunks true true ops₂).flatten →
    (state e₁ ops₁).inner.items = [] → (state e₂ ops₂).inner.items = [] →
    (yieldedOf (Chan.outs (Chan.create e₁) ops₁)).flatten = (yieldedOf (Chan.outs (Chan.create e₂) ops₂)).flatten := by
  intro inst hfed h1 h2
  have a := C07_bytes_exact_bytes e₁ ops₁ hu₁
  have b := C07_bytes_exact_bytes e₂ ops₂ hu₂
  simp only [h1, h2, List.flatten_nil, List.append_nil] at a b
  rw [a, b, hfed]

end ActixModel.Payload.C07
