import ActixModel.Proofs.PayloadOk
/-
C07 — Request-body channel: exact bytes, truthful ending, no lost wake-ups.

Model: `Model/Payload.lean` (`Inner`, `PayloadSender`, `Payload` of `actix-http/src/h1/payload.rs`,
function by function).  Spec: `Spec/Payload.lean` — a history automaton `Hist` computed from the
observable trace only (ops issued, results returned, wakers woken) and the acceptance predicate
`StepOk`, clause by clause from the property text.

Every theorem below quantifies over **all** operation sequences `ops : List (Op β)` (any length,
any interleaving of feed_data / feed_eof / set_error / sender drop / need_read / is_dropped with
poll_next / unread_data / reader drop, any waker identities, any chunk type `β` with any size
function — in particular `β = List UInt8` with sizes on either side of the 32 KiB limit) and both
values of `Payload::create(eof)`.  Nothing is bounded; proofs are by induction over `ops` through
the invariants `Inv` and `Sim` of `Proofs/Payload.lean`.
-/
namespace ActixModel.Payload.C07
open ActixModel.Payload ActixModel.Consts

variable {β : Type} [Chunk β]
set_option linter.unusedSectionVars false

/-- chunk type used in the `example`s and `witness_*` theorems: a chunk is its length -/
local instance natChunk : Chunk Nat := ⟨id⟩

/-! ## Spec-level vocabulary -/

/-- the observable history after running `ops` on a fresh `Payload::create(eof)` pair -/
def hist (eof : Bool) (ops : List (Op β)) : Hist β :=
  (Hist.init eof).runWith ops (Chan.outs (Chan.create eof) ops)

/-- the channel state after `ops` -/
def state (eof : Bool) (ops : List (Op β)) : Chan β := Chan.exec (Chan.create eof) ops

/-- what the next operation `op` returns / wakes after `ops` -/
def next (eof : Bool) (ops : List (Op β)) (op : Op β) : Out β := (Chan.step (state eof ops) op).2

/-- the chunks a trace handed to the reader -/
def yieldedOf : List (Out β) → List β
  | [] => []
  | ⟨.poll (.data b), _⟩ :: os => b :: yieldedOf os
  | _ :: os => yieldedOf os

/-- the chunks accepted by `feed_data`, read off the operation sequence alone: those issued while
both handles still exist -/
def fedChunks : Bool → Bool → List (Op β) → List β
  | _, _, [] => []
  | s, r, .feedData b :: ops => if s && r then b :: fedChunks s r ops else fedChunks s r ops
  | _, r, .dropSender :: ops => fedChunks false r ops
  | s, _, .dropReader :: ops => fedChunks s false ops
  | s, r, _ :: ops => fedChunks s r ops

def isUnread : Op β → Bool
  | .unreadData _ => true
  | _ => false

/-! ## Master statement: every trace of the model is accepted by the spec automaton -/

theorem sim (eof : Bool) (ops : List (Op β)) : Sim (state eof ops) (hist eof ops) :=
  sim_run _ _ ops (sim_create eof)

theorem inv (eof : Bool) (ops : List (Op β)) : Inv (state eof ops) :=
  inv_run _ ops (inv_create eof)

/-- **All four clauses at once**: for every op sequence, every single observation is acceptable
after the history before it (`StepOk`: exact data, truthful error / end / Pending, reader woken by
data/end/error/sender-drop, feeder woken by a drain below the limit, Pause only when full). -/
theorem C07_trace_accepted (eof : Bool) (ops : List (Op β)) :
    TraceOk (Hist.init eof) ops (Chan.outs (Chan.create eof) ops) :=
  traceOk_run _ _ ops (sim_create eof) (inv_create eof)

/-- the same, as a statement about the next observation after an arbitrary history -/
theorem C07_next_accepted (eof : Bool) (ops : List (Op β)) (op : Op β) :
    StepOk (hist eof ops) op (next eof ops op) :=
  stepOk_of_sim _ _ op (sim eof ops) (inv eof ops)

example : StepOk (hist false [Op.feedData (3 : Nat)]) (.pollNext 0) ⟨.poll (.data 3), []⟩ :=
  C07_next_accepted false [.feedData 3] (.pollNext 0)

/-! ## `len` bookkeeping (`self.len -= data.len()` cannot underflow) -/

theorem C07_len_exact (eof : Bool) (ops : List (Op β)) :
    (state eof ops).inner.len = sumSizes (state eof ops).inner.items :=
  (inv eof ops).len_eq

/-! ## 1. Exact bytes, in order -/

theorem outs_length (c : Chan β) (ops : List (Op β)) : (Chan.run c ops).2.length = ops.length := by
  induction ops generalizing c with
  | nil => rfl
  | cons op ops ih => simp [Chan.run, ih]

theorem yieldedOf_append (xs ys : List (Out β)) : yieldedOf (xs ++ ys) = yieldedOf xs ++ yieldedOf ys := by
  induction xs with
  | nil => rfl
  | cons o xs ih =>
    obtain ⟨r, ws⟩ := o
    cases r with
    | poll p => cases p <;> simp [yieldedOf, ih]
    | _ => simp [yieldedOf, ih]

theorem yielded_step (c : Chan β) (h : Hist β) (op : Op β) (s : Sim c h) :
    (h.step op (Chan.step c op).2).yielded = h.yielded ++ yieldedOf [(Chan.step c op).2] := by
  have hr := s.rAlive
  cases op <;>
    simp only [Hist.step, Hist.observe, Chan.step, Chan.senderOp] <;>
    (repeat' split) <;> simp_all [yieldedOf]

theorem yielded_run (c : Chan β) (h : Hist β) (ops : List (Op β)) (s : Sim c h) :
    (h.runWith ops (Chan.run c ops).2).yielded = h.yielded ++ yieldedOf (Chan.run c ops).2 := by
  induction ops generalizing c h with
  | nil => simp [Chan.run, Hist.runWith, yieldedOf]
  | cons op ops ih =>
    simp only [Chan.run, Hist.runWith]
    rw [ih _ _ (sim_step c h op s), yielded_step c h op s]
    have : yieldedOf ((Chan.step c op).2 :: (Chan.run (Chan.step c op).1 ops).2)
        = yieldedOf [(Chan.step c op).2] ++ yieldedOf (Chan.run (Chan.step c op).1 ops).2 :=
      yieldedOf_append [_] _
    rw [this, List.append_assoc]

/-- the history's `yielded` is exactly the list of chunks the trace's polls returned -/
theorem hist_yielded (eof : Bool) (ops : List (Op β)) :
    (hist eof ops).yielded = yieldedOf (Chan.outs (Chan.create eof) ops) := by
  have := yielded_run (Chan.create eof) (Hist.init eof) ops (sim_create eof)
  simpa [hist, Chan.outs, Hist.init] using this

/-- **bytes_exact (ghost log)**: after any history, what the reader has been handed, followed by
what is still queued, is the ghost log: the accepted `feed_data` chunks in order, with
`unread_data` re-insertions at the reader's position. Nothing lost, duplicated or reordered. -/
theorem C07_bytes_exact (eof : Bool) (ops : List (Op β)) :
    yieldedOf (Chan.outs (Chan.create eof) ops) ++ (state eof ops).inner.items = (hist eof ops).log := by
  rw [← hist_yielded]
  exact (sim eof ops).log.symm

theorem log_run_no_unread (h : Hist β) (ops : List (Op β)) (os : List (Out β))
    (hl : os.length = ops.length) (hu : ops.all (fun op => !isUnread op) = true) :
    (h.runWith ops os).log = h.log ++ fedChunks h.sAlive h.rAlive ops := by
  induction ops generalizing h os with
  | nil => simp [Hist.runWith, fedChunks]
  | cons op ops ih =>
    cases os with
    | nil => simp at hl
    | cons o os =>
      simp only [List.length_cons, Nat.add_right_cancel_iff] at hl
      simp only [List.all_cons, Bool.and_eq_true] at hu
      simp only [Hist.runWith]
      rw [ih _ _ hl hu.2]
      cases op <;>
        simp only [Hist.step, Hist.observe, fedChunks, isUnread] at hu ⊢ <;>
        (repeat' split) <;> simp_all

/-- **bytes_exact, read off the operations alone**: without `unread_data`, the chunks handed to the
reader followed by the queued ones are exactly the `feed_data` arguments issued while both
handles existed, in order (so the yielded chunks are a prefix of the fed ones). -/
theorem C07_bytes_exact_fed (eof : Bool) (ops : List (Op β))
    (hu : ops.all (fun op => !isUnread op) = true) :
    yieldedOf (Chan.outs (Chan.create eof) ops) ++ (state eof ops).inner.items = fedChunks true true ops := by
  rw [C07_bytes_exact]
  have := log_run_no_unread (Hist.init eof) ops (Chan.outs (Chan.create eof) ops)
    (outs_length _ _) hu
  simpa [hist, Hist.init] using this

example : ([Op.feedData (7 : Nat), .pollNext 0, .feedData 9]).all (fun op => !isUnread op) = true := by decide

/-- byte level, for real byte chunks: the concatenation of everything yielded is a prefix of the
concatenation of everything fed, and the rest is what is queued. -/
theorem C07_bytes_exact_bytes (eof : Bool) (ops : List (Op (List UInt8)))
    (hu : ops.all (fun op => !isUnread op) = true) :
    let _ : Chunk (List UInt8) := ⟨List.length⟩
    (yieldedOf (Chan.outs (Chan.create eof) ops)).flatten ++ ((state eof ops).inner.items).flatten
      = (fedChunks true true ops).flatten := by
  intro inst
  rw [← List.flatten_append, C07_bytes_exact_fed eof ops hu]

/-- `unread_data(b)` followed by `poll_next` hands `b` back -/
theorem C07_unread_roundtrip (eof : Bool) (ops : List (Op β)) (b : β) (w : WakerId)
    (hr : (state eof ops).readerAlive = true) :
    (Chan.outs (state eof ops) [.unreadData b, .pollNext w]).map (·.res) = [.unit, .poll (.data b)] := by
  simp [Chan.outs, Chan.run, Chan.step, hr, Inner.unreadData, Inner.pollNext, Inner.wakeIo]

/-! ## 2. Truthful ending -/

/-- **truthful_end (clean end)**: whenever a poll answers `Ready(None)`, every accepted chunk has
been handed over (nothing queued, reader holds the whole ghost log), the end of the body *was*
signalled, and no set error is still undelivered. -/
theorem C07_truthful_end (eof : Bool) (ops : List (Op β)) (w : WakerId)
    (hr : (state eof ops).readerAlive = true)
    (hres : (next eof ops (.pollNext w)).res = .poll .eos) :
    (state eof ops).inner.items = [] ∧
    yieldedOf (Chan.outs (Chan.create eof) ops) = (hist eof ops).log ∧
    (hist eof ops).eofSignalled = true ∧ (hist eof ops).errOutstanding = none := by
  have s := sim eof ops
  have ok := (C07_next_accepted eof ops (.pollNext w)).end_truthful w rfl hres (by rw [s.rAlive]; exact hr)
  have hi : (state eof ops).inner.items = [] := by rw [← outstanding_of_sim s]; exact ok.1
  refine ⟨hi, ?_, ok.2.1, ok.2.2⟩
  have := C07_bytes_exact eof ops
  rw [hi, List.append_nil] at this
  exact this

example : (next (β := Nat) false [.feedEof] (.pollNext 0)).res = Res.poll .eos := by decide

def isFeedEof : Op β → Bool
  | .feedEof => true
  | _ => false

theorem eofSignalled_run (h : Hist β) (ops : List (Op β)) (os : List (Out β))
    (he : (h.runWith ops os).eofSignalled = true) :
    h.eofSignalled = true ∨ ops.any isFeedEof = true := by
  induction ops generalizing h os with
  | nil => left; simpa [Hist.runWith] using he
  | cons op ops ih =>
    cases os with
    | nil => left; simpa [Hist.runWith] using he
    | cons o os =>
      simp only [Hist.runWith] at he
      rcases ih _ _ he with h1 | h1
      · cases op <;>
          simp only [Hist.step, Hist.observe] at h1 <;>
          (try (repeat' split at h1)) <;> simp_all [isFeedEof]
      · right; simp [h1]

/-- a clean end is never reported on a channel created open unless `feed_eof` was called:
"never a clean end alone for a body that was cut short" -/
theorem C07_clean_end_needs_feed_eof (ops : List (Op β)) (w : WakerId)
    (hr : (state false ops).readerAlive = true)
    (hres : (next false ops (.pollNext w)).res = .poll .eos) :
    ops.any isFeedEof = true := by
  have h := (C07_truthful_end false ops w hr hres).2.2.1
  rcases eofSignalled_run _ _ _ h with h1 | h1
  · simp [Hist.init] at h1
  · exact h1

/-- **truthful_end (error)**: an error is reported only after all queued data, and it is the error
that is outstanding in the history: the last `set_error`, or `Incomplete` put there because the
sender vanished before any `feed_eof` / `set_error`. -/
theorem C07_error_truthful (eof : Bool) (ops : List (Op β)) (w : WakerId) (e : PErr)
    (hr : (state eof ops).readerAlive = true)
    (hres : (next eof ops (.pollNext w)).res = .poll (.error e)) :
    (state eof ops).inner.items = [] ∧ (hist eof ops).errOutstanding = some e := by
  have s := sim eof ops
  have ok := (C07_next_accepted eof ops (.pollNext w)).error_truthful w e rfl hres (by rw [s.rAlive]; exact hr)
  exact ⟨by rw [← outstanding_of_sim s]; exact ok.1, ok.2⟩

/-- a poll says Pending only when there is nothing to report: no data, no error, no end -/
theorem C07_pending_honest (eof : Bool) (ops : List (Op β)) (w : WakerId)
    (hr : (state eof ops).readerAlive = true)
    (hres : (next eof ops (.pollNext w)).res = .poll .pending) :
    (state eof ops).inner.items = [] ∧ (hist eof ops).eofSignalled = false ∧
      (hist eof ops).errOutstanding = none := by
  have s := sim eof ops
  have ok := (C07_next_accepted eof ops (.pollNext w)).pending_honest w rfl hres (by rw [s.rAlive]; exact hr)
  exact ⟨by rw [← outstanding_of_sim s]; exact ok.1, ok.2⟩

/-! ## 3. Reader wake-ups -/

/-- **reader_wake**: if the reader's last poll said Pending with waker `w` and nobody woke `w`
since, then the next accepted `feed_data` / `feed_eof` / `set_error`, and the sender's drop unless
an end or error had already been signalled, wakes `w`. -/
theorem C07_reader_wake (eof : Bool) (ops : List (Op β)) (op : Op β) (w : WakerId)
    (hp : (hist eof ops).parkedReader = some w)
    (hev : readerEvent (hist eof ops) op = true) :
    w ∈ (next eof ops op).wakes :=
  (C07_next_accepted eof ops op).reader_woken w hp hev

example : (hist (β := Nat) false [.pollNext 4]).parkedReader = some 4 ∧
    readerEvent (hist (β := Nat) false [.pollNext 4]) .dropSender = true := by decide

/-! ## 4. Feeder wake-ups -/

/-- **feeder_wake**: if the feeder's last `need_read` said Pause with waker `wf` and nobody woke
it since, the poll that pops a chunk — in particular the one that brings the buffer below the
limit — wakes `wf` (the reader being alive). -/
theorem C07_feeder_wake (eof : Bool) (ops : List (Op β)) (w wf : WakerId) (b : β)
    (hr : (state eof ops).readerAlive = true)
    (hp : (hist eof ops).parkedFeeder = some wf)
    (hres : (next eof ops (.pollNext w)).res = .poll (.data b)) :
    wf ∈ (next eof ops (.pollNext w)).wakes := by
  have s := sim eof ops
  have hio := s.parkedF wf hp hr
  unfold next at hres ⊢
  rw [step_pollNext_alive _ w hr] at hres ⊢
  rcases pollNext_cases (state eof ops).inner w with ⟨d, rest, hi, hr', hw⟩ | ⟨e', hi, he, hr', -⟩ | ⟨hi, he, hf, hr', -⟩ | ⟨hi, he, hf, hr', -⟩ <;>
    simp only [hr'] at hres <;> cases hres
  simp [hw, hio]

/-- the feeder is told to pause only while at least `MAX_BUFFER_SIZE` bytes are queued … -/
theorem C07_pause_only_when_full (eof : Bool) (ops : List (Op β)) (w : WakerId)
    (hres : (next eof ops (.needRead w)).res = .status .pause) :
    payloadMaxBufferSize ≤ sumSizes (state eof ops).inner.items := by
  have s := sim eof ops
  rw [← outstanding_of_sim s]
  exact (C07_next_accepted eof ops (.needRead w)).pause_full w rfl hres

/-- … hence a paused feeder cannot be stranded by a live reader: the reader's very next poll pops
a chunk and wakes it. -/
theorem C07_paused_feeder_is_woken_by_next_poll (eof : Bool) (ops : List (Op β)) (wf w : WakerId)
    (hres : (next eof ops (.needRead wf)).res = .status .pause) :
    ∃ b, next eof (ops ++ [.needRead wf]) (.pollNext w) = ⟨.poll (.data b), [wf]⟩ := by
  have hfull := C07_pause_only_when_full eof ops wf hres
  have hlen := C07_len_exact eof ops
  have hst : state eof (ops ++ [.needRead wf]) = (Chan.step (state eof ops) (.needRead wf)).1 := by
    simp only [state, exec_append, exec_singleton]
  unfold next at hres ⊢
  rw [hst]
  clear hst
  generalize state eof ops = c at *
  have hc : c.readerAlive = true ∧
      (Chan.step c (.needRead wf)).1 = { c with inner := Inner.registerIo c.inner wf } := by
    simp only [Chan.step] at hres ⊢
    cases hs : c.senderAlive <;> cases hr : c.readerAlive <;> cases hn : c.inner.needRead <;> simp_all
  rw [hc.2, step_pollNext_alive { c with inner := Inner.registerIo c.inner wf } w hc.1]
  rcases pollNext_cases (Inner.registerIo c.inner wf) w with ⟨d, rest, hi, hr', hw⟩ | ⟨e', hi, -⟩ | ⟨hi, -⟩ | ⟨hi, -⟩
  · refine ⟨d, ?_⟩
    rw [hr', hw]
    rfl
  all_goals
    simp only [Inner.registerIo] at hi
    rw [hi] at hfull
    simp [payloadMaxBufferSize] at hfull

end ActixModel.Payload.C07
