import ActixModel.Proofs.H2
/-
C08 — HTTP/2 responses are complete and well-described under any flow-control schedule.

Model: `ActixModel/Model/H2.lean` (`prepareResponse`, `handleResponse`, `sendBody`, `sendChunk`).
The `h2` crate is an oracle: a *schedule* is the list of answers the send loop gets from
`poll_capacity` (`cap n | closed | err`; list exhausted = never answered again).  Every theorem
quantifies over all statuses / header lists / chunk lists / schedules; nothing is bounded.
-/
namespace ActixModel.H2.C08
open ActixModel.H2 ActixModel.Util

/-! ## Spec vocabulary -/

/-- values of all headers called `name`, in order -/
def valuesOf (name : String) (hs : List Header) : List String :=
  (hs.filter (fun h => h.1 == name)).map (·.2)

/-- statuses for which the code forces `BodySize::None` -/
def Bodiless (status : Nat) : Prop := status = 204 ∨ status = 304 ∨ status = 100 ∨ status = 102

/-- headers that `prepare_response` treats specially -/
def special (name : String) : Bool :=
  connSpecific.contains name || name == "content-length" || name == "date"

/-- The assumptions on the `h2` capacity oracle under which completion is claimed
(DESIGN §5 C08; sampled by the correspondence run, not proved about `h2`). -/
structure OracleContract (sched : List CapAns) (polls : List Poll) : Prop where
  /-- the stream stays open and `poll_capacity` does not fail -/
  answers : ∀ a ∈ sched, ∃ c, a = .cap c
  /-- capacity returned for a positive reservation is positive (reservations are always
  positive: `C08_reserve_positive`) -/
  positive : ∀ a ∈ sched, ∀ c, a = .cap c → 1 ≤ c
  /-- `h2` never assigns more than was requested -/
  bounded : ∀ p ∈ polls, p.granted ≤ p.reserved

theorem OracleContract.good {sched : List CapAns} {polls : List Poll}
    (h : OracleContract sched polls) : GoodSched sched := by
  intro a ha
  obtain ⟨c, hc⟩ := h.answers a ha
  exact ⟨c, hc, h.positive a ha c hc⟩

/-! ## prepare_response -/

/-- **C08_prepare_no_conn_headers**: whatever the handler set, no `connection`,
`transfer-encoding`, `upgrade`, `keep-alive` or `proxy-connection` header is emitted. -/
theorem C08_prepare_no_conn_headers (status : Nat) (size : BodySize) (hs : List Header) (date : String) :
    ∀ h ∈ (prepareResponse status size hs date).1, h.1 ∉ connSpecific := by
  intro h hh
  simp only [prepareResponse, List.mem_append, List.mem_filter] at hh
  rcases hh with (hh | hh) | hh
  · cases hsz : (adjustSize status size).1 <;> simp [hsz, lengthHeader] at hh
    subst hh; simp [connSpecific]
  · have := hh.2
    simp only [keepHeader, Bool.and_eq_true, Bool.not_eq_true'] at this
    intro hc
    have : connSpecific.contains h.1 = true := by simpa using hc
    simp_all
  · split at hh
    · simp at hh
    · simp at hh; subst hh; simp [connSpecific]

/-- **C08_prepare_content_length**: the emitted `content-length` headers are exactly: the one
value `n` when the adjusted size is `Sized n` (a handler-set value is *replaced*); otherwise
nothing, unless the body was `Stream`-sized (or the status is 304) and the handler set one
itself, which is passed through. -/
theorem C08_prepare_content_length (status : Nat) (size : BodySize) (hs : List Header) (date : String) :
    valuesOf "content-length" (prepareResponse status size hs date).1 =
      match (prepareResponse status size hs date).2 with
      | .sized n => [toString n]
      | _ => if (adjustSize status size).2 then [] else valuesOf "content-length" hs := by
  have hdate : ∀ d : String, valuesOf "content-length" (if hs.any (fun h => h.1 == "date") then [] else [("date", d)]) = [] := by
    intro d; split <;> simp [valuesOf]
  have hsk : ∀ (sk : Bool), valuesOf "content-length" (hs.filter (fun h => keepHeader sk h.1)) =
      if sk then [] else valuesOf "content-length" hs := by
    intro sk
    simp only [valuesOf, List.filter_filter]
    cases sk with
    | false =>
      simp only [Bool.false_eq_true, if_false]
      congr 1
      apply List.filter_congr
      intro h _
      by_cases hn : h.1 = "content-length"
      · rw [hn]; decide
      · simp [hn]
    | true =>
      simp only [if_true]
      have : hs.filter (fun h => h.1 == "content-length" && keepHeader true h.1) = [] := by
        apply List.filter_eq_nil_iff.mpr
        intro h _
        by_cases hn : h.1 = "content-length"
        · rw [hn]; decide
        · simp [hn]
      rw [this]; rfl
  have happ : ∀ a b : List Header, valuesOf "content-length" (a ++ b) =
      valuesOf "content-length" a ++ valuesOf "content-length" b := by
    intro a b; simp [valuesOf]
  simp only [prepareResponse, happ, hdate, hsk, List.append_nil]
  cases hsz : (adjustSize status size).1 with
  | none => simp [lengthHeader, valuesOf]
  | stream => simp [lengthHeader, valuesOf]
  | sized n =>
    -- `Sized` survives `adjustSize` only on the default branch, where skip_len is true
    have hskip : (adjustSize status size).2 = true := by
      unfold adjustSize at hsz ⊢
      split at hsz
      · simp at hsz
      · split at hsz
        · simp at hsz
        · split at hsz
          · simp at hsz
          · simp only at hsz; subst hsz; simp_all
    simp [lengthHeader, valuesOf, hskip]

/-- **C08_prepare_bodiless**: 204 / 304 / 100 / 102 force `BodySize::None` (no automatic
content-length, END_STREAM on the HEADERS frame: `C08_no_body`). -/
theorem C08_prepare_bodiless (status : Nat) (size : BodySize) (hs : List Header) (date : String)
    (hb : Bodiless status) : (prepareResponse status size hs date).2 = .none := by
  simp only [prepareResponse, adjustSize]
  rcases hb with h | h | h | h <;> subst h <;> simp

/-- **C08_prepare_size_kept**: for every other status except 101 the declared size is used
unchanged. -/
theorem C08_prepare_size_kept (status : Nat) (size : BodySize) (hs : List Header) (date : String)
    (hb : ¬ Bodiless status) (h101 : status ≠ 101) : (prepareResponse status size hs date).2 = size := by
  simp only [Bodiless, not_or] at hb
  simp [prepareResponse, adjustSize, hb.1, hb.2.1, hb.2.2.1, hb.2.2.2, h101]

/-- **C08_prepare_keeps_headers**: every other handler header is copied, in order, and nothing
else is added. -/
theorem C08_prepare_keeps_headers (status : Nat) (size : BodySize) (hs : List Header) (date : String) :
    (prepareResponse status size hs date).1.filter (fun h => !special h.1) =
      hs.filter (fun h => !special h.1) := by
  have h1 : ∀ sz, (lengthHeader sz).filter (fun h => !special h.1) = [] := by
    intro sz; cases sz <;> simp [lengthHeader, special]
  have h2 : ∀ d : String, (if hs.any (fun h => h.1 == "date") then [] else [("date", d)]).filter
      (fun h : Header => !special h.1) = [] := by
    intro d; split <;> simp [special]
  simp only [prepareResponse, List.filter_append, h1, h2, List.nil_append, List.append_nil,
    List.filter_filter]
  apply List.filter_congr
  intro h _
  by_cases hs' : special h.1 = true
  · simp [hs']
  · have hs'' : special h.1 = false := by simpa using hs'
    simp only [special, Bool.or_eq_false_iff] at hs''
    simp [special, keepHeader, hs''.1.2, hs''.2]

/-- **C08_prepare_date**: the response carries the handler's `date` header(s) if it set any,
otherwise exactly one, from the date service. -/
theorem C08_prepare_date (status : Nat) (size : BodySize) (hs : List Header) (date : String) :
    valuesOf "date" (prepareResponse status size hs date).1 =
      if valuesOf "date" hs = [] then [date] else valuesOf "date" hs := by
  have h1 : ∀ sz, valuesOf "date" (lengthHeader sz) = [] := by
    intro sz; cases sz <;> simp [lengthHeader, valuesOf]
  have happ : ∀ a b : List Header, valuesOf "date" (a ++ b) = valuesOf "date" a ++ valuesOf "date" b := by
    intro a b; simp [valuesOf]
  have hk : ∀ sk, valuesOf "date" (hs.filter (fun h => keepHeader sk h.1)) = valuesOf "date" hs := by
    intro sk
    simp only [valuesOf, List.filter_filter]
    congr 1
    apply List.filter_congr
    intro h _
    by_cases hd : h.1 = "date"
    · have : keepHeader sk "date" = true := by cases sk <;> decide
      simp [hd, this]
    · simp [hd]
  have hany : hs.any (fun h => h.1 == "date") = !(valuesOf "date" hs).isEmpty := by
    induction hs with
    | nil => simp [valuesOf]
    | cons h t ih =>
      have ih' := ih (by
        intro sk
        simp only [valuesOf, List.filter_filter]
        congr 1
        apply List.filter_congr
        intro h _
        by_cases hd : h.1 = "date"
        · have : keepHeader sk "date" = true := by cases sk <;> decide
          simp [hd, this]
        · simp [hd])
      by_cases hd : h.1 = "date"
      · simp [valuesOf, hd]
      · simp only [valuesOf] at ih'
        simp [valuesOf, hd, ih']
  simp only [prepareResponse, happ, h1, hk, List.nil_append, hany]
  cases hv : valuesOf "date" hs with
  | nil => simp [valuesOf]
  | cons v vs => simp [valuesOf]

/-! ## HEAD and bodiless responses -/

/-- **C08_no_body**: for a HEAD request, and for every response whose adjusted size is
`None`/`Sized 0` (in particular 204/304: `C08_prepare_bodiless`), the HEADERS frame carries
END_STREAM and not a single DATA frame is sent — whatever the handler's body contains and
whatever the capacity oracle would answer. -/
theorem C08_no_body (date : String) (res : Response) (headReq : Bool) (body : List Item)
    (sched : List CapAns)
    (h : headReq = true ∨ (prepareResponse res.status res.size res.headers date).2.isEof = true) :
    let w := handleResponse date res headReq body true sched
    w.frames = [] ∧ w.polls = [] ∧ w.end_ = .done ∧ ∃ hd, w.head = some hd ∧ hd.eos = true := by
  have hor : ((prepareResponse res.status res.size res.headers date).2.isEof || headReq) = true := by
    rcases h with h | h <;> simp [h]
  simp [handleResponse, hor]

/-- **C08_head_no_body**: the HEAD instance. -/
theorem C08_head_no_body (date : String) (res : Response) (body : List Item) (sched : List CapAns) :
    (handleResponse date res true body true sched).frames = [] ∧
    (handleResponse date res true body true sched).end_ = .done :=
  let h := C08_no_body date res true body sched (Or.inl rfl)
  ⟨h.1, h.2.2.1⟩

/-- **C08_bodiless_no_body**: the 204 / 304 / 100 / 102 instance. -/
theorem C08_bodiless_no_body (date : String) (res : Response) (headReq : Bool) (body : List Item)
    (sched : List CapAns) (hb : Bodiless res.status) :
    (handleResponse date res headReq body true sched).frames = [] ∧
    (handleResponse date res headReq body true sched).end_ = .done := by
  have := C08_no_body date res headReq body sched
    (Or.inr (by rw [C08_prepare_bodiless _ _ _ _ hb]; rfl))
  exact ⟨this.1, this.2.2.1⟩

/-- hypotheses of `C08_no_body` are met by a non-trivial state: a 204 with a 3-chunk body -/
example : Bodiless 204 ∧
    (handleResponse "d" ⟨204, .sized 3, [("x", "1")]⟩ false [.chunk [1], .chunk [2, 3]] true [.cap 5]).frames = [] :=
  ⟨Or.inl rfl, by decide⟩

/-! ## The body: safety for every schedule -/

/-- **C08_body_prefix** (all chunk lists, all schedules — resets, errors, starvation, zero or
oversized grants included): the DATA bytes are, in order, a prefix of what the body produced. -/
theorem C08_body_prefix (date : String) (res : Response) (headReq headOk : Bool) (body : List Item)
    (sched : List CapAns) :
    ∃ tl, wireBytes (handleResponse date res headReq body headOk sched).frames ++ tl = bodyBytes body := by
  simp only [handleResponse]
  split
  · exact ⟨bodyBytes body, by simp [wireBytes]⟩
  · split
    · exact ⟨bodyBytes body, by simp [wireBytes]⟩
    · exact (sendBody_safe body sched).1

/-- **C08_no_false_eos** (all chunk lists, all schedules): if any DATA frame carries END_STREAM
then the loop ended `done`, that frame is the last one and is empty, every body byte was sent
before it, and the body did not fail.  A truncated or failed body is never made to look
complete. -/
theorem C08_no_false_eos (date : String) (res : Response) (headReq headOk : Bool) (body : List Item)
    (sched : List CapAns) :
    let w := handleResponse date res headReq body headOk sched
    (∃ f ∈ w.frames, f.eos = true) →
      w.end_ = .done ∧ wireBytes w.frames = bodyBytes body ∧ bodyFails body = false ∧
      ∃ fs, w.frames = fs ++ [⟨[], true⟩] ∧ ∀ f ∈ fs, f.eos = false := by
  simp only [handleResponse]
  split
  · simp
  · split
    · simp
    · intro ⟨f, hf, he⟩
      obtain ⟨_, hdone, hnd, _⟩ := sendBody_safe body sched
      by_cases hd : (sendBody body sched).end_ = .done
      · exact ⟨hd, hdone hd⟩
      · have := hnd hd f hf
        simp [this] at he

/-! ## The body: completion under the oracle contract -/

/-- **C08_body_exact**: for every chunk list (empty chunks included) of a body that does not
fail, and every capacity schedule that satisfies the contract and answers at least as often as
there are bytes: the loop terminates with `done`; the DATA frames, concatenated in order, are
exactly the chunks concatenated; the last frame — and only the last — carries END_STREAM. -/
theorem C08_body_exact (items : List Item) (sched : List CapAns)
    (hok : bodyFails items = false)
    (hc : OracleContract sched (sendBody items sched).polls)
    (hlen : (bodyBytes items).length ≤ sched.length) :
    let r := sendBody items sched
    r.end_ = .done ∧ wireBytes r.frames = bodyBytes items ∧
    ∃ fs, r.frames = fs ++ [⟨[], true⟩] ∧ ∀ f ∈ fs, f.eos = false := by
  have hd := sendBody_live items sched hok hc.good hlen
  obtain ⟨_, hdone, _, _⟩ := sendBody_safe items sched
  obtain ⟨h1, _, h3⟩ := hdone hd
  exact ⟨hd, h1, h3⟩

/-- the contract's hypotheses are satisfiable on a non-trivial run: chunks `[1,2,3]`, `[]`, `[4]`
against grants 2, 1, 1 -/
example :
    let items := [Item.chunk [1, 2, 3], .chunk [], .chunk [4]]
    let sched := [CapAns.cap 2, .cap 1, .cap 1, .cap 1]
    bodyFails items = false ∧ (bodyBytes items).length ≤ sched.length ∧
    (∀ p ∈ (sendBody items sched).polls, p.granted ≤ p.reserved) ∧
    (sendBody items sched).frames = [⟨[1, 2], false⟩, ⟨[3], false⟩, ⟨[4], false⟩, ⟨[], true⟩] := by
  decide

/-- **C08_response_exact**: the same through `handle_response`: a GET for a response with a
body phase delivers exactly the body and ends the stream. -/
theorem C08_response_exact (date : String) (res : Response) (body : List Item) (sched : List CapAns)
    (hphase : (prepareResponse res.status res.size res.headers date).2.isEof = false)
    (hok : bodyFails body = false)
    (hc : OracleContract sched (sendBody body sched).polls)
    (hlen : (bodyBytes body).length ≤ sched.length) :
    let w := handleResponse date res false body true sched
    w.end_ = .done ∧ wireBytes w.frames = bodyBytes body ∧
    (∃ hd, w.head = some hd ∧ hd.eos = false) ∧
    ∃ fs, w.frames = fs ++ [⟨[], true⟩] ∧ ∀ f ∈ fs, f.eos = false := by
  obtain ⟨h1, h2, h3⟩ := C08_body_exact body sched hok hc hlen
  simp only [handleResponse, hphase]
  exact ⟨h1, h2, ⟨_, rfl, rfl⟩, h3⟩

/-- **C08_frame_bound**: every answered capacity request reserved between 1 and `CHUNK_SIZE`
bytes, the DATA frame sent for it is no longer than the capacity granted, and — when the oracle
never grants more than was reserved — no longer than `CHUNK_SIZE`; a positive grant always makes
progress. The polls record the DATA frame lengths in order. (All schedules.) -/
theorem C08_frame_bound (items : List Item) (sched : List CapAns) :
    (∀ p ∈ (sendBody items sched).polls,
      1 ≤ p.reserved ∧ p.reserved ≤ chunkSize ∧ p.sent ≤ p.granted ∧
      (p.granted ≤ p.reserved → p.sent ≤ chunkSize) ∧ (1 ≤ p.granted → 1 ≤ p.sent)) ∧
    (sendBody items sched).polls.map (·.sent) =
      ((sendBody items sched).frames.filter (fun f => !f.eos)).map (·.data.length) :=
  ⟨sendBody_polls items sched, sendBody_sent items sched⟩

/-- **C08_reserve_positive**: the loop never reserves zero capacity (the F11 repair), so the
contract's clause "a positive reservation is answered with positive capacity" always applies. -/
theorem C08_reserve_positive (items : List Item) (sched : List CapAns) :
    ∀ p ∈ (sendBody items sched).polls, 1 ≤ p.reserved :=
  fun p hp => (sendBody_polls items sched p hp).1

/-- **C08_schedule_independent**: two capacity schedules that both satisfy the contract (any
window sizes, any release pattern) make the client receive the same bytes and the same clean
end. -/
theorem C08_schedule_independent (items : List Item) (s₁ s₂ : List CapAns)
    (hok : bodyFails items = false)
    (h₁ : OracleContract s₁ (sendBody items s₁).polls) (h₂ : OracleContract s₂ (sendBody items s₂).polls)
    (l₁ : (bodyBytes items).length ≤ s₁.length) (l₂ : (bodyBytes items).length ≤ s₂.length) :
    wireBytes (sendBody items s₁).frames = wireBytes (sendBody items s₂).frames ∧
    (sendBody items s₁).end_ = (sendBody items s₂).end_ := by
  obtain ⟨a1, a2, _⟩ := C08_body_exact items s₁ hok h₁ l₁
  obtain ⟨b1, b2, _⟩ := C08_body_exact items s₂ hok h₂ l₂
  exact ⟨by rw [a2, b2], by rw [a1, b1]⟩

/-- **C08_chunking_independent**: two chunkings of the same bytes (any chunk sizes, empty
chunks anywhere) are indistinguishable to the client. -/
theorem C08_chunking_independent (i₁ i₂ : List Item) (s₁ s₂ : List CapAns)
    (hsame : bodyBytes i₁ = bodyBytes i₂)
    (ok₁ : bodyFails i₁ = false) (ok₂ : bodyFails i₂ = false)
    (h₁ : OracleContract s₁ (sendBody i₁ s₁).polls) (h₂ : OracleContract s₂ (sendBody i₂ s₂).polls)
    (l₁ : (bodyBytes i₁).length ≤ s₁.length) (l₂ : (bodyBytes i₂).length ≤ s₂.length) :
    wireBytes (sendBody i₁ s₁).frames = wireBytes (sendBody i₂ s₂).frames := by
  obtain ⟨_, a2, _⟩ := C08_body_exact i₁ s₁ ok₁ h₁ l₁
  obtain ⟨_, b2, _⟩ := C08_body_exact i₂ s₂ ok₂ h₂ l₂
  rw [a2, b2, hsame]

/-- **C08_failed_body_not_completed**: a body stream error ends the response without
END_STREAM (the peer sees a reset, not a complete message), for every schedule. -/
theorem C08_failed_body_not_completed (items : List Item) (sched : List CapAns)
    (hf : bodyFails items = true) :
    (sendBody items sched).end_ ≠ .done ∧ ∀ f ∈ (sendBody items sched).frames, f.eos = false := by
  obtain ⟨_, hdone, hnd, _⟩ := sendBody_safe items sched
  have hne : (sendBody items sched).end_ ≠ .done := by
    intro hd
    have := (hdone hd).2.1
    rw [hf] at this; cases this
  exact ⟨hne, hnd hne⟩

/-- **C08_polls_bounded** (termination measure): under the contract the loop asks for capacity
at most once per body byte — it cannot spin. -/
theorem C08_polls_bounded (items : List Item) (sched : List CapAns)
    (hc : OracleContract sched (sendBody items sched).polls) :
    (sendBody items sched).polls.length ≤ (bodyBytes items).length :=
  sendBody_polls_le items sched hc.good

/-! ## The loop as an event machine: invariants over all answer sequences -/

/-- **C08_machine_agrees**: the recursive model of the loop and the event machine (`step`, one
transition per `poll_capacity` answer) send the same frames and end the same way, for every
body and every schedule. -/
theorem C08_machine_agrees (items : List Item) (sched : List CapAns) :
    (runSteps items sched).frames = (sendBody items sched).frames ∧
    (runSteps items sched).end_ = (sendBody items sched).end_ :=
  runSteps_eq_sendBody items sched

/-- **C08_invariant**: after *every* sequence of capacity answers (grants of any size incl. 0,
`closed`, `err`, in any order, any length) the suspended task satisfies:
bytes sent ++ unsent remainder of the current chunk ++ bytes the body will still produce = the
body; a task that waits has a non-empty remainder (never a zero reservation); END_STREAM has
been sent iff the task finished `done`, and then nothing is left. -/
theorem C08_invariant (items : List Item) (sched : List CapAns) :
    let s := runSteps items sched
    wireBytes s.frames ++ s.cur ++ bodyBytes s.items = bodyBytes items ∧
    (s.fin = none → s.cur ≠ []) ∧
    ((∃ f ∈ s.frames, f.eos = true) ↔ s.fin = some .done) ∧
    (s.fin = some .done → s.cur = [] ∧ s.items = []) :=
  let h := runSteps_inv items sched
  ⟨h.bytes, h.waiting, h.eos, h.done⟩

/-! ## What is reserved: never more than the chunk in hand -/

/-- **C08_reserve_exact**: while a chunk of `len` bytes is being sent, the successive
reservations are exactly `min(remaining, CHUNK_SIZE)`, `remaining` being `len` minus what the
earlier polls of this chunk sent — for every schedule. (Not a fixed `CHUNK_SIZE`: capacity that
is reserved but cannot be used is taken from the peer's connection window and from the other
streams.) -/
theorem C08_reserve_exact (chunk : Bytes) (sched : List CapAns) :
    (sendChunk chunk sched).polls.map (·.reserved) =
      expectedReserves chunk.length ((sendChunk chunk sched).polls.map (·.sent)) :=
  sendChunk_reserves chunk sched

/-- **C08_reserve_within_chunk**: over the whole body, every reservation is at most the length
of a chunk the body actually produced (and at most `CHUNK_SIZE`: `C08_frame_bound`): a body that
trickles 1-byte chunks never holds more than 1 byte of the peer's window while it waits. -/
theorem C08_reserve_within_chunk (items : List Item) (sched : List CapAns) :
    ∀ p ∈ (sendBody items sched).polls,
      p.reserved ≤ chunkSize ∧ ∃ bs, Item.chunk bs ∈ items ∧ p.reserved ≤ bs.length :=
  fun p hp => ⟨(sendBody_polls items sched p hp).2.1, sendBody_reserved_le items sched p hp⟩

/-- instance: chunks of 1 and 3 bytes under grants 1, 2, 1 reserve 1, 3, 1 -/
example : (sendBody [.chunk [9], .chunk [1, 2, 3]] [.cap 1, .cap 2, .cap 1]).polls.map (·.reserved) = [1, 3, 1] := by
  decide

/-! ## A stream reset by the peer: `poll_capacity → None` ends the response -/

/-- **C08_closed_stops_pulling**: when a waiting task is told that its stream is gone
(`poll_capacity` → `None`), the response is over: whatever answers might still arrive, the task
has finished `closed`, **no further item is pulled from the body** (`items` is untouched, however
long or endless the body is), nothing more is sent. The loop does not go back to the body. -/
theorem C08_closed_stops_pulling (s : LoopSt) (rest : List CapAns) (h : s.fin = none) :
    let s' := rest.foldl step (step s .closed)
    s'.fin = some .closed ∧ s'.items = s.items ∧ s'.frames = s.frames ∧ s'.cur = s.cur := by
  have hs : step s .closed = { s with fin := some .closed } := by
    simp [step, h]
  simp only [hs]
  rw [foldl_step_fin _ _ (by simp)]
  simp

/-- **C08_finished_is_final**: a finished response task never acts again. -/
theorem C08_finished_is_final (s : LoopSt) (rest : List CapAns) (h : s.fin.isSome) :
    rest.foldl step s = s :=
  foldl_step_fin s rest h

/-- **C08_closed_ends_response** (recursive model): with the stream gone at the first capacity
request for a chunk, the outcome is `closed` with nothing sent and no poll answered, and it does
not depend on the rest of the body nor on later answers — the remaining body is never looked at. -/
theorem C08_closed_ends_response (bs : Bytes) (items items' : List Item) (rest rest' : List CapAns)
    (hne : bs ≠ []) :
    (sendBody (.chunk bs :: items) (.closed :: rest)).end_ = .closed ∧
    (sendBody (.chunk bs :: items) (.closed :: rest)).frames = [] ∧
    (sendBody (.chunk bs :: items) (.closed :: rest)).polls = [] ∧
    (sendBody (.chunk bs :: items) (.closed :: rest)).frames =
      (sendBody (.chunk bs :: items') (.closed :: rest')).frames := by
  have hb : bs.isEmpty = false := by
    cases bs with
    | nil => exact absurd rfl hne
    | cons _ _ => rfl
  simp [sendBody, sendChunk, hb]

/-- a non-trivial instance: reset after the first grant, 3 chunks never pulled -/
example :
    let s := runSteps [.chunk [1, 2], .chunk [3], .chunk [4], .chunk [5]] [.cap 1, .closed, .cap 9, .cap 9]
    s.fin = some .closed ∧ s.items = [.chunk [3], .chunk [4], .chunk [5]] ∧ wireBytes s.frames = [1] := by
  decide

/-! ## Several streams on one connection -/

/-- **C08_streams_independent**: under every interleaving of capacity answers, resets and
errors addressed to any streams, the state of stream `k` is what it would be had it run alone
on the answers addressed to it. -/
theorem C08_streams_independent (bodies : Nat → List Item) (evs : List (Nat × CapAns)) (k : Nat) :
    runConn bodies evs k = runSteps (bodies k) (project k evs) :=
  runConn_project bodies evs k

/-- **C08_other_streams_irrelevant**: two event histories that agree on stream `k` (and differ
arbitrarily elsewhere: another stream reset, starved, failing, slow) leave stream `k` identical. -/
theorem C08_other_streams_irrelevant (bodies : Nat → List Item) (e₁ e₂ : List (Nat × CapAns)) (k : Nat)
    (h : project k e₁ = project k e₂) : runConn bodies e₁ k = runConn bodies e₂ k := by
  rw [runConn_project, runConn_project, h]

/-- **C08_conn_stream_exact**: on a connection with arbitrary traffic on other streams, a stream
whose own answers satisfy the oracle contract delivers exactly its body and END_STREAM. -/
theorem C08_conn_stream_exact (bodies : Nat → List Item) (evs : List (Nat × CapAns)) (k : Nat)
    (hok : bodyFails (bodies k) = false)
    (hc : OracleContract (project k evs) (sendBody (bodies k) (project k evs)).polls)
    (hlen : (bodyBytes (bodies k)).length ≤ (project k evs).length) :
    wireBytes (runConn bodies evs k).frames = bodyBytes (bodies k) ∧
    (runConn bodies evs k).end_ = .done := by
  obtain ⟨h1, h2, _⟩ := C08_body_exact (bodies k) (project k evs) hok hc hlen
  obtain ⟨m1, m2⟩ := runSteps_eq_sendBody (bodies k) (project k evs)
  rw [runConn_project, m1, m2]
  exact ⟨h2, h1⟩

/-- a non-trivial instance: stream 1 is reset, stream 2 completes -/
example :
    let bodies : Nat → List Item := fun k => if k = 1 then [.chunk [1, 2, 3]] else [.chunk [7, 8]]
    let evs : List (Nat × CapAns) := [(1, .cap 1), (2, .cap 1), (1, .closed), (2, .cap 5)]
    (runConn bodies evs 1).end_ = .closed ∧ (runConn bodies evs 2).end_ = .done ∧
    wireBytes (runConn bodies evs 2).frames = [7, 8] := by
  decide

/-! ## Refinement to the client's view -/

/-- what a client that reassembles the stream sees -/
structure ClientView where
  status : Nat
  headers : List Header
  body : Bytes
  /-- the stream ended with END_STREAM (not with a reset) -/
  complete : Bool
  deriving DecidableEq

def view (w : Wire) : Option ClientView :=
  w.head.map fun h => ⟨h.status, h.headers, wireBytes w.frames, decide (w.end_ = .done)⟩

/-- the specification: the prepared head, and the handler's bytes unless the request was HEAD or
the response is bodiless -/
def spec (date : String) (res : Response) (headReq : Bool) (body : List Item) : ClientView :=
  let p := prepareResponse res.status res.size res.headers date
  ⟨res.status, p.1, if headReq || p.2.isEof then [] else bodyBytes body, true⟩

/-- **C08_refines_spec**: whenever the response head can be sent, the client's view is exactly
the specification — for HEAD / bodiless responses unconditionally, otherwise for every body
that does not fail and every schedule that satisfies the oracle contract. -/
theorem C08_refines_spec (date : String) (res : Response) (headReq : Bool) (body : List Item)
    (sched : List CapAns)
    (h : (headReq || (prepareResponse res.status res.size res.headers date).2.isEof) = true ∨
         (bodyFails body = false ∧ OracleContract sched (sendBody body sched).polls ∧
          (bodyBytes body).length ≤ sched.length)) :
    view (handleResponse date res headReq body true sched) = some (spec date res headReq body) := by
  by_cases hb : ((prepareResponse res.status res.size res.headers date).2.isEof || headReq) = true
  · have hb' : (headReq || (prepareResponse res.status res.size res.headers date).2.isEof) = true := by
      rw [Bool.or_comm]; exact hb
    simp [view, spec, handleResponse, hb, hb', wireBytes]
  · have hb2 : ((prepareResponse res.status res.size res.headers date).2.isEof || headReq) = false := by
      simpa using hb
    have hb' : (headReq || (prepareResponse res.status res.size res.headers date).2.isEof) = false := by
      rw [Bool.or_comm]; exact hb2
    rcases h with h | ⟨hok, hc, hlen⟩
    · rw [hb'] at h; cases h
    · obtain ⟨h1, h2, _⟩ := C08_body_exact body sched hok hc hlen
      simp [view, spec, handleResponse, hb2, hb', h1, h2]

/-! ## F11: the loop before the repair -/

/-- the statement `C08_body_exact` is **false** for the loop as it was before the repair: a
stream body yielding an empty chunk never completes, although the oracle grants everything. -/
theorem witness_F11_unfixed :
    (sendBodyUnfixed [.chunk [1], .chunk [], .chunk [2]] [.cap 1, .cap 1, .cap 1, .cap 1]).end_ = .stalled ∧
    (sendBody [.chunk [1], .chunk [], .chunk [2]] [.cap 1, .cap 1, .cap 1, .cap 1]).end_ = .done := by
  decide

/-- **C08_repair_conservative**: on bodies without empty chunks the repaired loop behaves
exactly like the old one. -/
theorem C08_repair_conservative (items : List Item) (sched : List CapAns)
    (hne : ∀ bs, Item.chunk bs ∈ items → bs ≠ []) :
    sendBody items sched = sendBodyUnfixed items sched := by
  induction items generalizing sched with
  | nil => rfl
  | cons it items ih =>
    cases it with
    | err => rfl
    | chunk bs =>
      have hbs : bs.isEmpty = false := by
        have := hne bs (List.mem_cons_self ..)
        cases bs with
        | nil => exact absurd rfl this
        | cons _ _ => rfl
      have ih' : ∀ s, sendBody items s = sendBodyUnfixed items s :=
        fun s => ih s (fun b hb => hne b (List.mem_cons_of_mem _ hb))
      simp only [sendBody, sendBodyUnfixed, hbs, ih']
      rfl

end ActixModel.H2.C08
