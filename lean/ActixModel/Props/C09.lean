import ActixModel.Proofs.Route
/-
C09 — app routing picks the first registered match and exposes exactly its parameters.

Model: `ActixModel/Model/Route.lean` (`routeApp`, after `AppRouting::call`, `ScopeService::call`,
`ResourceService::call`, `Router::recognize_fn`, `ResourceDef::capture_match_info_fn`), generic
in the pattern matcher `matchPat`.  Spec: the inductive relations `Routes` / `Serves` of
`ActixModel/Proofs/Route.lean`.  Every theorem quantifies over *all* route tables (any depth, any
width), all requests and all matchers; nothing is bounded.
-/
namespace ActixModel.Route.C09
open ActixModel.Route

variable {Pat : Type}

/-- **C09_first_match**: for every table, request and pattern matcher, the router's answer is
exactly the one the spec describes: the first registered service (depth-first, registration
order) whose pattern matches the not-yet-matched part of the path and whose guards accept is
committed to; inside a resource the first route whose guards accept; otherwise the nearest
default (405 for a matched resource, 404 for the app, unless registered).  The spec relation is
functional, so this is an equivalence. -/
theorem C09_first_match (matchPat : Matcher Pat) (app : App Pat) (req : Req) (out : Outcome) :
    routeApp matchPat app req = out ↔ Routes matchPat app req out := by
  constructor
  · rintro rfl
    unfold routeApp
    cases hl : routeList matchPat req app.children (St.init app) (effDefault app.dflt .notFound) 0 with
    | some o =>
      obtain ⟨pre, c, post, len, caps, e, hpre, hm, rfl⟩ := routeList_eq_some.1 hl
      simp only [Nat.zero_add]
      exact Routes.child pre c post len caps e hpre hm (serve_sound matchPat req c _ _)
    | none => exact Routes.noChild (routeList_eq_none.1 hl)
  · intro h
    cases h with
    | child pre c post len caps e hpre hm hs =>
      unfold routeApp
      rw [routeList_eq_some.2 ⟨pre, c, post, len, caps, e, hpre, hm, rfl⟩]
      simpa using (serve_complete hs).symm
    | noChild hall =>
      unfold routeApp
      rw [routeList_eq_none.2 hall]

/-- the spec is deterministic: a request has exactly one outcome -/
theorem C09_spec_functional (matchPat : Matcher Pat) (app : App Pat) (req : Req) (o₁ o₂ : Outcome)
    (h₁ : Routes matchPat app req o₁) (h₂ : Routes matchPat app req o₂) : o₁ = o₂ := by
  rw [← (C09_first_match matchPat app req o₁).2 h₁, ← (C09_first_match matchPat app req o₂).2 h₂]

/-- and total: every request has an outcome -/
theorem C09_spec_total (matchPat : Matcher Pat) (app : App Pat) (req : Req) :
    ∃ o, Routes matchPat app req o :=
  ⟨_, (C09_first_match matchPat app req _).1 rfl⟩

end ActixModel.Route.C09
