import ActixModel.Proofs.Route
import ActixModel.Proofs.RouteMini
/-
C09 — app routing picks the first registered match and exposes exactly its parameters.

Model: `ActixModel/Model/Route.lean` (`routeApp`, after `AppRouting::call`, `ScopeService::call`,
`ResourceService::call`, `Router::recognize_fn`, `ResourceDef::capture_match_info_fn`), generic
in the pattern matcher `matchPat`.  Spec: the inductive relations `Routes` / `Serves` of
`ActixModel/Proofs/Route.lean`.  Every theorem quantifies over *all* route tables (any depth, any
width), all requests and all matchers; nothing is bounded.
-/
namespace ActixModel.Route.C09
open ActixModel.Route

variable {Pat : Type}

/-- **C09_first_match**: for every table, request and pattern matcher, the router's answer is
exactly the one the spec describes: the first registered service (depth-first, registration
order) whose pattern matches the not-yet-matched part of the path and whose guards accept is
committed to; inside a resource the first route whose guards accept; otherwise the nearest
default (405 for a matched resource, 404 for the app, unless registered).  The spec relation is
functional, so this is an equivalence. -/
theorem C09_first_match (matchPat : Matcher Pat) (app : App Pat) (req : Req) (out : Outcome) :
    routeApp matchPat app req = out ↔ Routes matchPat app req out := by
  constructor
  · rintro rfl
    unfold routeApp
    cases hl : routeList matchPat req app.children (St.init app) (effDefault app.dflt .notFound) 0 with
    | some o =>
      obtain ⟨pre, c, post, len, caps, e, hpre, hm, rfl⟩ := routeList_eq_some.1 hl
      simp only [Nat.zero_add]
      exact Routes.child pre c post len caps e hpre hm (serve_sound matchPat req c _ _)
    | none => exact Routes.noChild (routeList_eq_none.1 hl)
  · intro h
    cases h with
    | child pre c post len caps e hpre hm hs =>
      unfold routeApp
      rw [routeList_eq_some.2 ⟨pre, c, post, len, caps, e, hpre, hm, rfl⟩]
      simpa using (serve_complete hs).symm
    | noChild hall =>
      unfold routeApp
      rw [routeList_eq_none.2 hall]

/-- the spec is deterministic: a request has exactly one outcome -/
theorem C09_spec_functional (matchPat : Matcher Pat) (app : App Pat) (req : Req) (o₁ o₂ : Outcome)
    (h₁ : Routes matchPat app req o₁) (h₂ : Routes matchPat app req o₂) : o₁ = o₂ := by
  rw [← (C09_first_match matchPat app req o₁).2 h₁, ← (C09_first_match matchPat app req o₂).2 h₂]

/-- and total: every request has an outcome -/
theorem C09_spec_total (matchPat : Matcher Pat) (app : App Pat) (req : Req) :
    ∃ o, Routes matchPat app req o :=
  ⟨_, (C09_first_match matchPat app req _).1 rfl⟩


/-! ## the chosen path -/

/-- `ChosenPath app req steps st'`: `steps` are the services committed to, outermost first — each
the first entry of its level (registration order) whose pattern matches what its predecessors
left of the path and whose guards accept — and nothing matches at the level they end in. -/
def ChosenPath (matchPat : Matcher Pat) (app : App Pat) (req : Req) (steps : List (Step Pat))
    (st' : St) : Prop :=
  Walk matchPat req app.children (St.init app) steps st' ∧
    Complete matchPat req app.children steps st'

/-- the router's outcome comes with a chosen path, and its ending is as `Ends` says -/
theorem C09_chosen_exists (matchPat : Matcher Pat) (app : App Pat) (req : Req) :
    ∃ steps, ChosenPath matchPat app req steps (routeApp matchPat app req).st ∧
      Ends matchPat req (.sc app.children) (effDefault app.dflt .notFound) steps
        (routeApp matchPat app req) := by
  obtain ⟨steps, hw, he⟩ := routes_explained ((C09_first_match matchPat app req _).1 rfl)
  exact ⟨steps, ⟨hw, ends_complete he⟩, he⟩

/-- **C09_path_unique**: every request has exactly one chosen path, and the router's final request
state is the state at its end. -/
theorem C09_path_unique (matchPat : Matcher Pat) (app : App Pat) (req : Req) :
    ∃ steps, ChosenPath matchPat app req steps (routeApp matchPat app req).st ∧
      ∀ steps' st', ChosenPath matchPat app req steps' st' →
        steps' = steps ∧ st' = (routeApp matchPat app req).st := by
  obtain ⟨steps, hc, _⟩ := C09_chosen_exists matchPat app req
  exact ⟨steps, hc, fun steps' st' hc' => walk_unique hc'.1 hc'.2 hc.1 hc.2⟩

/-- any chosen path is *the* path the router took, with the router's ending -/
theorem C09_chosen_ends {matchPat : Matcher Pat} {app : App Pat} {req : Req} {steps : List (Step Pat)}
    {st' : St} (h : ChosenPath matchPat app req steps st') :
    st' = (routeApp matchPat app req).st ∧
      Ends matchPat req (.sc app.children) (effDefault app.dflt .notFound) steps
        (routeApp matchPat app req) := by
  obtain ⟨steps0, hc, he⟩ := C09_chosen_exists matchPat app req
  obtain ⟨e1, e2⟩ := walk_unique h.1 h.2 hc.1 hc.2
  subst e1
  exact ⟨e2, he⟩

/-- **C09_params_exact**: the handler's `match_info` is exactly the concatenation of the captures
of the patterns on the chosen path, in path order: each pattern was matched against precisely the
part of the path its predecessors left (`req.path.drop (lensOf pre)`), its captures are stored with
offsets referring to the full path (`capsOf 0`), their values are the text at the pattern's own
offsets in that part (`valuesOf`), and `skip` is the total matched length.  Candidates that were
tried and rejected contribute nothing. -/
theorem C09_params_exact (matchPat : Matcher Pat) (app : App Pat) (req : Req)
    (steps : List (Step Pat)) (st' : St) (h : ChosenPath matchPat app req steps st') :
    let out := routeApp matchPat app req
    out.st.skip = lensOf steps ∧
    out.st.segs = capsOf 0 steps ∧
    matchInfo req out = valuesOf req.path steps ∧
    out.st.ids = steps.map (·.idx) ∧
    ∀ pre s post, steps = pre ++ s :: post →
      matchPat s.node.pat s.node.isPrefix (req.path.drop (lensOf pre)) = some (s.len, s.caps) := by
  obtain ⟨e, _⟩ := C09_chosen_ends h
  subst e
  obtain ⟨h1, h2, _, h4⟩ := walk_state h.1
  simp only [St.init, Nat.zero_add, List.nil_append] at h1 h2 h4
  refine ⟨h1, h2, ?_, h4, ?_⟩
  · unfold matchInfo
    rw [h2, map_capValue_capsOf]
    simp
  · intro pre s post e
    have := walk_matches h.1 pre s post e
    simpa [St.init] using this

/-- **C09_data_innermost**: the containers visible to the handler are the app's and those of the
nodes on the chosen path, outermost first, and `app_data::<T>()` resolves to the innermost one. -/
theorem C09_data_innermost (matchPat : Matcher Pat) (app : App Pat) (req : Req)
    (steps : List (Step Pat)) (st' : St) (h : ChosenPath matchPat app req steps st') :
    let out := routeApp matchPat app req
    out.st.data = app.data.toList ++ steps.filterMap (·.node.data) ∧
    lookupData out = (app.data.toList ++ steps.filterMap (·.node.data)).getLast? := by
  obtain ⟨e, _⟩ := C09_chosen_ends h
  subst e
  obtain ⟨_, _, h3, _⟩ := walk_state h.1
  simp only [St.init] at h3
  exact ⟨h3, by simp [lookupData, h3]⟩

/-- … in particular: the data of the innermost node on the path that registered any -/
theorem C09_data_innermost_node (matchPat : Matcher Pat) (app : App Pat) (req : Req)
    (steps : List (Step Pat)) (st' : St) (h : ChosenPath matchPat app req steps st')
    (pre : List (Step Pat)) (s : Step Pat) (post : List (Step Pat)) (d : Nat)
    (hs : steps = pre ++ s :: post) (hd : s.node.data = some d)
    (hpost : ∀ t ∈ post, t.node.data = none) :
    lookupData (routeApp matchPat app req) = some d := by
  rw [(C09_data_innermost matchPat app req steps st' h).2, hs]
  have hp : post.filterMap (·.node.data) = [] := by
    rw [List.filterMap_eq_nil_iff]; exact hpost
  simp [List.filterMap_append, hd, hp]

/-- … and the app's own data when no node on the path registered any -/
theorem C09_data_app (matchPat : Matcher Pat) (app : App Pat) (req : Req)
    (steps : List (Step Pat)) (st' : St) (h : ChosenPath matchPat app req steps st')
    (hnone : ∀ t ∈ steps, t.node.data = none) :
    lookupData (routeApp matchPat app req) = app.data := by
  rw [(C09_data_innermost matchPat app req steps st' h).2]
  have hp : steps.filterMap (·.node.data) = [] := by
    rw [List.filterMap_eq_nil_iff]; exact hnone
  rw [hp]
  cases app.data <;> simp

/-- **C09_guard_data**: application data read *by a guard* (`GuardContext::app_data`, i.e.
`ServiceRequest::app_data`) also resolves to the innermost registration: the guards of every
service on the chosen path accepted the request as seen with the innermost marker among the app's
container and those of the services entered before it.  (The guards of the answering route see, in
addition, the resource's own container: `C09_handler` with `Req.seen` of the final state, whose
data `C09_data_innermost` describes.) -/
theorem C09_guard_data (matchPat : Matcher Pat) (app : App Pat) (req : Req)
    (steps : List (Step Pat)) (st' : St) (h : ChosenPath matchPat app req steps st')
    (pre : List (Step Pat)) (s : Step Pat) (post : List (Step Pat)) (hs : steps = pre ++ s :: post) :
    GuardsOk { req with data := (app.data.toList ++ pre.filterMap (·.node.data)).getLast? }
      s.node.guards := by
  simpa [St.init] using walk_guards h.1 pre s post hs

/-- **C09_handler**: a handler answers iff the chosen path ends in a resource and it is the handler
of that resource's first route whose guards accept. -/
theorem C09_handler (matchPat : Matcher Pat) (app : App Pat) (req : Req)
    (steps : List (Step Pat)) (st' : St) (h : ChosenPath matchPat app req steps st') (hid : Nat) :
    (routeApp matchPat app req).target = .handler hid ↔
      ∃ s pat gs data routes dflt, steps.getLast? = some s ∧
        s.node = .resource pat gs data routes dflt ∧ firstRoute (req.seen (routeApp matchPat app req).st) routes = some hid := by
  obtain ⟨_, he⟩ := C09_chosen_ends h
  unfold Ends finalLevel at he
  constructor
  · intro ht
    cases hl : steps.getLast? with
    | none =>
      rw [hl] at he
      simp only at he
      rw [ht] at he
      have : finalFallback (effDefault app.dflt .notFound) steps = effDefault app.dflt .notFound := by
        have : steps = [] := by simpa using hl
        simp [this, finalFallback]
      rw [this] at he
      cases hd : app.dflt <;> simp [hd, effDefault] at he
    | some s =>
      rw [hl] at he
      simp only at he
      cases hn : s.node with
      | resource pat gs data routes dflt =>
        rw [hn] at he
        simp only [Node.level] at he
        refine ⟨s, pat, gs, data, routes, dflt, rfl, hn, ?_⟩
        rw [ht] at he
        cases hf : firstRoute (req.seen (routeApp matchPat app req).st) routes with
        | some h' => rw [hf] at he; simp at he; rw [he]
        | none =>
          rw [hf] at he
          simp only at he
          exact absurd he.symm (finalFallback_ne_handler steps hid (by
            cases hd : app.dflt <;> simp [effDefault]))
      | scope pat gs data ch dflt =>
        rw [hn] at he
        simp only [Node.level] at he
        rw [ht] at he
        exact absurd he.2.symm (finalFallback_ne_handler steps hid (by
          cases hd : app.dflt <;> simp [effDefault]))
  · rintro ⟨s, pat, gs, data, routes, dflt, hl, hn, hf⟩
    rw [hl] at he
    simp only [hn, Node.level, hf] at he
    exact he

/-- **C09_default_nearest**: a request that is not answered by a handler is answered by the
default service in force where its chosen path ends — the nearest enclosing registration:
`finalFallback` folds, outermost first, the app's default (404 unless registered), each scope's own
default if it has one, and for a final resource its own default (405 unless registered). -/
theorem C09_default_nearest (matchPat : Matcher Pat) (app : App Pat) (req : Req)
    (steps : List (Step Pat)) (st' : St) (h : ChosenPath matchPat app req steps st')
    (hnot : ∀ hid, (routeApp matchPat app req).target ≠ .handler hid) :
    (routeApp matchPat app req).target = finalFallback (effDefault app.dflt .notFound) steps := by
  obtain ⟨_, he⟩ := C09_chosen_ends h
  unfold Ends at he
  cases hl : finalLevel (.sc app.children) steps with
  | res routes =>
    rw [hl] at he
    simp only at he
    cases hf : firstRoute (req.seen (routeApp matchPat app req).st) routes with
    | some h' => rw [hf] at he; exact absurd he (hnot h')
    | none => rw [hf] at he; exact he
  | sc ch =>
    rw [hl] at he
    exact he.2

/-- the fold picks the nearest registration: the innermost scope on the path that has a default -/
theorem C09_default_nearest_scope (fb0 : Target) (pre : List (Step Pat)) (s : Step Pat)
    (post : List (Step Pat)) (pat : Pat) (gs : List Guard) (data : Option Nat)
    (ch : List (Node Pat)) (d : Nat)
    (hs : s.node = .scope pat gs data ch (some d))
    (hpost : ∀ t ∈ post, ∃ p g dt c, t.node = .scope p g dt c none) :
    finalFallback fb0 (pre ++ s :: post) = .dflt d := by
  unfold finalFallback
  rw [List.foldl_append, List.foldl_cons, hs]
  simp only [fallback, effDefault]
  induction post with
  | nil => rfl
  | cons t ts ih =>
    obtain ⟨p, g, dt, c, ht⟩ := hpost t (by simp)
    rw [List.foldl_cons, ht]
    exact ih (fun x hx => hpost x (by simp [hx]))

/-- … and the app's default when no scope on the path has one -/
theorem C09_default_app (fb0 : Target) (steps : List (Step Pat))
    (hall : ∀ t ∈ steps, ∃ p g dt c, t.node = .scope p g dt c none) :
    finalFallback fb0 steps = fb0 := by
  unfold finalFallback
  induction steps with
  | nil => rfl
  | cons t ts ih =>
    obtain ⟨p, g, dt, c, ht⟩ := hall t (by simp)
    rw [List.foldl_cons, ht]
    simp only [fallback, effDefault]
    exact ih (fun x hx => hall x (by simp [hx]))

/-- **C09_405**: the built-in 405 answers exactly when the chosen path ends in a resource that has
no registered default and none of whose routes accepts the request. -/
theorem C09_405 (matchPat : Matcher Pat) (app : App Pat) (req : Req)
    (steps : List (Step Pat)) (st' : St) (h : ChosenPath matchPat app req steps st') :
    (routeApp matchPat app req).target = .notAllowed ↔
      ∃ s pat gs data routes, steps.getLast? = some s ∧
        s.node = .resource pat gs data routes none ∧ ∀ r ∈ routes, ¬ GuardsOk (req.seen (routeApp matchPat app req).st) r.guards := by
  obtain ⟨_, he⟩ := C09_chosen_ends h
  unfold Ends finalLevel at he
  have hfb0 : effDefault app.dflt .notFound ≠ .notAllowed := by
    cases hd : app.dflt <;> simp [effDefault]
  constructor
  · intro ht
    cases hl : steps.getLast? with
    | none =>
      rw [hl] at he
      simp only at he
      have : steps = [] := by simpa using hl
      rw [ht, this] at he
      exact absurd he.2.symm (by simpa [finalFallback] using hfb0)
    | some s =>
      rw [hl] at he
      simp only at he
      cases hn : s.node with
      | resource pat gs data routes dflt =>
        rw [hn] at he
        simp only [Node.level] at he
        rw [ht] at he
        cases hf : firstRoute (req.seen (routeApp matchPat app req).st) routes with
        | some h' => rw [hf] at he; simp at he
        | none =>
          rw [hf] at he
          simp only at he
          rw [finalFallback_last_resource (effDefault app.dflt .notFound) hl hn] at he
          cases dflt with
          | some d => simp [effDefault] at he
          | none => exact ⟨s, pat, gs, data, routes, rfl, hn, firstRoute_eq_none.1 hf⟩
      | scope pat gs data ch dflt =>
        rw [hn] at he
        simp only [Node.level] at he
        rw [ht] at he
        exact absurd he.2.symm (finalFallback_scope_ne_notAllowed h.1 hfb0 hl (by simp [hn, Node.level]))
  · rintro ⟨s, pat, gs, data, routes, hl, hn, hall⟩
    rw [hl] at he
    simp only [hn, Node.level, firstRoute_eq_none.2 hall] at he
    rw [he, finalFallback_last_resource _ hl hn]
    simp [effDefault]


/-! ## registration order -/

/-- **C09_append_stable**: registering further services *after* the existing ones never changes how
a request is answered that some existing top-level service matches (earlier registrations win). -/
theorem C09_append_stable (matchPat : Matcher Pat) (app : App Pat) (req : Req)
    (extra : List (Node Pat))
    (h : ∃ c ∈ app.children, ¬ Rejects matchPat req c (St.init app)) :
    routeApp matchPat { app with children := app.children ++ extra } req =
      routeApp matchPat app req := by
  unfold routeApp
  have hi : St.init { app with children := app.children ++ extra } = St.init app := rfl
  simp only [hi]
  rw [routeList_append]
  cases hl : routeList matchPat req app.children (St.init app) (effDefault app.dflt .notFound) 0 with
  | some o => rfl
  | none =>
    obtain ⟨c, hc, hr⟩ := h
    exact absurd (routeList_eq_none.1 hl c hc) hr

/-- … and a request no existing top-level service matches is routed among the new ones exactly as
if they were alone, except that their indices continue the numbering -/
theorem C09_append_fallthrough (matchPat : Matcher Pat) (app : App Pat) (req : Req)
    (extra : List (Node Pat))
    (h : ∀ c ∈ app.children, Rejects matchPat req c (St.init app)) :
    routeApp matchPat { app with children := app.children ++ extra } req =
      match routeList matchPat req extra (St.init app) (effDefault app.dflt .notFound)
          app.children.length with
      | some o => o
      | none => ⟨effDefault app.dflt .notFound, St.init app⟩ := by
  unfold routeApp
  have hi : St.init { app with children := app.children ++ extra } = St.init app := rfl
  simp only [hi]
  rw [routeList_append, routeList_eq_none.2 h]
  simp only [Nat.zero_add]
  cases routeList matchPat req extra (St.init app) (effDefault app.dflt .notFound)
    app.children.length <;> rfl

/-- **C09_later_irrelevant**: once a service matches, nothing registered after it on the same level
is ever consulted — the outcome is that service's answer whatever follows it. -/
theorem C09_later_irrelevant (matchPat : Matcher Pat) (app : App Pat) (req : Req)
    (pre : List (Node Pat)) (c : Node Pat) (post post' : List (Node Pat)) (len : Nat) (caps : List Cap)
    (hch : app.children = pre ++ c :: post)
    (hpre : ∀ c' ∈ pre, Rejects matchPat req c' (St.init app))
    (hm : Matches matchPat req c (St.init app) len caps) :
    routeApp matchPat app req = routeApp matchPat { app with children := pre ++ c :: post' } req := by
  have hi : St.init { app with children := pre ++ c :: post' } = St.init app := rfl
  unfold routeApp
  simp only [hi]
  rw [routeList_eq_some.2 ⟨pre, c, post, len, caps, hch, hpre, hm, rfl⟩,
    routeList_eq_some.2 ⟨pre, c, post', len, caps, rfl, hpre, hm, rfl⟩]

/-- **C09_route_sugar**: `App::route(path, route)` registers a resource guarded by the route's
guards whose only route is unguarded — once entered it always reaches the handler; a guard
mismatch makes the router pass on to later registrations instead of answering 405. -/
theorem C09_route_sugar (matchPat : Matcher Pat) (req : Req) (pat : Pat) (r : Route) (st : St)
    (inh : Target) :
    serve matchPat req (routeSugar pat r) st inh = ⟨.handler r.handler, st⟩ ∧
    (¬ GuardsOk (req.seen st) r.guards → Rejects matchPat req (routeSugar pat r) st) := by
  constructor
  · simp [routeSugar, serve, firstRoute, evalAll]
  · intro hg len caps hm
    exact hg hm.2

/-- **C09_dfs_first**: "searching depth-first in registration order".  When a handler answers, the
route that answers is the *first*, in depth-first registration order (lexicographic order on
the index path `resource_path ++ [route position]`), among all routes of the table that are
reachable through services whose patterns match successively and whose guards — on every level
and on the route itself — accept (`Chain`: no first-match requirement).  (The converse needs
commitment: see the example after `exApp`, where such a chain exists but an earlier-registered
scope has committed and answers with its default.) -/
theorem C09_dfs_first (matchPat : Matcher Pat) (app : App Pat) (req : Req)
    (steps : List (Step Pat)) (st' : St) (h : ChosenPath matchPat app req steps st')
    (s : Step Pat) (pat : Pat) (gs : List Guard) (data : Option Nat) (routes : List Route)
    (dflt : Option Nat) (k : Nat)
    (hl : steps.getLast? = some s) (hs : s.node = .resource pat gs data routes dflt)
    (hk : firstRouteIdx (req.seen st') routes 0 = some k)
    (c : List (Step Pat)) (st₂ : St) (t : Step Pat) (pat' : Pat) (gs' : List Guard)
    (data' : Option Nat) (routes' : List Route) (dflt' : Option Nat) (j : Nat) (r : Route)
    (hc : Chain matchPat req app.children (St.init app) c st₂)
    (hcl : c.getLast? = some t) (ht : t.node = .resource pat' gs' data' routes' dflt')
    (hj : routes'[j]? = some r) (hr : GuardsOk (req.seen st₂) r.guards) :
    LexLe (steps.map (·.idx) ++ [k]) (c.map (·.idx) ++ [j]) :=
  walk_dfs_minimal h.1 hc hl hcl hs ht hk hj hr

/-- … and that first position is where the answering handler is registered -/
theorem C09_dfs_first_handler (matchPat : Matcher Pat) (app : App Pat) (req : Req)
    (steps : List (Step Pat)) (st' : St) (h : ChosenPath matchPat app req steps st')
    (s : Step Pat) (pat : Pat) (gs : List Guard) (data : Option Nat) (routes : List Route)
    (dflt : Option Nat) (k : Nat)
    (hl : steps.getLast? = some s) (hs : s.node = .resource pat gs data routes dflt)
    (hk : firstRouteIdx (req.seen st') routes 0 = some k) :
    ∃ r, routes[k]? = some r ∧ (routeApp matchPat app req).target = .handler r.handler := by
  rw [(C09_chosen_ends h).1] at hk
  obtain ⟨r, hr, _, _, hf⟩ := firstRouteIdx_spec hk
  refine ⟨r, by simpa using hr, ?_⟩
  exact (C09_handler matchPat app req steps st' h r.handler).2 ⟨s, pat, gs, data, routes, dflt, hl, hs, hf⟩

/-! ## segment boundaries -/

/-- **C09_segment_boundary**: for every matcher whose prefix mode ends at a segment boundary
(`PrefixBoundary`: the pattern language of C10), every scope on the chosen path leaves an unmatched
rest that is empty or starts with `/` — children are always matched at a segment boundary. -/
theorem C09_segment_boundary (matchPat : Matcher Pat) (law : PrefixBoundary matchPat)
    (app : App Pat) (req : Req) (steps : List (Step Pat)) (st' : St)
    (h : ChosenPath matchPat app req steps st')
    (pre : List (Step Pat)) (s : Step Pat) (post : List (Step Pat))
    (hs : steps = pre ++ s :: post) (hscope : s.node.isPrefix = true) :
    req.path.drop (lensOf pre + s.len) = [] ∨
      (req.path.drop (lensOf pre + s.len)).head? = some '/' := by
  have hm := (C09_params_exact matchPat app req steps st' h).2.2.2.2 pre s post hs
  rw [hscope] at hm
  have := law _ _ _ _ hm
  simpa [List.drop_drop] using this

/-- **C09_resource_consumes**: for every matcher whose full mode consumes its input (`FullMatch`), a
request answered through a resource (handler, resource default or 405) has no unprocessed path
left. -/
theorem C09_resource_consumes (matchPat : Matcher Pat) (law : FullMatch matchPat)
    (app : App Pat) (req : Req) (steps : List (Step Pat)) (st' : St)
    (h : ChosenPath matchPat app req steps st') (s : Step Pat)
    (hl : steps.getLast? = some s) (hres : s.node.isPrefix = false) :
    unprocessed req (routeApp matchPat app req).st = [] := by
  obtain ⟨init, rfl⟩ : ∃ init, steps = init ++ [s] := by
    rcases List.eq_nil_or_concat steps with rfl | ⟨init, x, rfl⟩
    · simp at hl
    · simp at hl; exact ⟨init, by simp [hl]⟩
  obtain ⟨hskip, _, _, _, hmatch⟩ := C09_params_exact matchPat app req _ st' h
  have hm := hmatch init s [] rfl
  rw [hres] at hm
  have := law _ _ _ _ hm
  simp only [unprocessed, hskip, lensOf, List.map_append, List.sum_append, List.map_cons,
    List.map_nil, List.sum_cons, List.sum_nil, Nat.add_zero]
  simpa [List.drop_drop, lensOf] using this

/-- the stand-in matcher of the driver satisfies both laws (non-vacuity of the two theorems above) -/
theorem C09_mini_laws :
    PrefixBoundary RouteMini.miniMatch ∧ FullMatch RouteMini.miniMatch :=
  ⟨RouteMini.miniMatch_prefixBoundary, RouteMini.miniMatch_fullMatch⟩

/-- **C09_boundary**: percent-decoding never moves a segment boundary.  For every `requote` that
copies a literal `/` and decodes independently on both sides of it, and never decodes anything
*to* a `/` (`SlashLaw`: `%2F` stays encoded — C10 proves this of `Quoter::requote` for every
protected set containing `/`), the segments of the decoded path are the decoded segments of the
raw path: same number, same order, none merged or split. -/
theorem C09_boundary (rq : Chars → Chars) (law : RouteMini.SlashLaw rq) (raw : Chars) :
    RouteMini.splitSlash (rq raw) = (RouteMini.splitSlash raw).map rq :=
  RouteMini.split_requote law raw

/-- … in particular the number of segments (of literal `/`) is unchanged -/
theorem C09_boundary_count (rq : Chars → Chars) (law : RouteMini.SlashLaw rq) (raw : Chars) :
    (RouteMini.splitSlash (rq raw)).length = (RouteMini.splitSlash raw).length := by
  rw [C09_boundary rq law raw, List.length_map]

/-- the modelled `Quoter::requote` (protected `%/+`, as in `url.rs`) satisfies the law, so the
theorem applies to the model the correspondence runs against the code -/
theorem C09_boundary_quoter (raw : Chars) :
    RouteMini.splitSlash (RouteMini.requote raw) =
      (RouteMini.splitSlash raw).map RouteMini.requote :=
  C09_boundary _ RouteMini.requote_law raw

/-! ## registration -/

/-- `ensure_leading_slash` / `insert_slash` (`register`): a registered pattern is empty or starts
with `/`, and registering is idempotent -/
theorem C09_register_slash (p : Chars) :
    (RouteMini.ensureLeadingSlash p = [] ∨ (RouteMini.ensureLeadingSlash p).head? = some '/') ∧
    RouteMini.ensureLeadingSlash (RouteMini.ensureLeadingSlash p) = RouteMini.ensureLeadingSlash p := by
  unfold RouteMini.ensureLeadingSlash
  cases p with
  | nil => simp
  | cons c rest =>
    by_cases hc : c = '/'
    · subst hc; simp
    · constructor
      · right
        split <;> simp_all
      · split <;> simp_all

/-! ## concrete instances (kernel-evaluated): hypotheses are satisfiable, statements non-trivial -/

section Examples
open RouteMini

/-- `app d=1 df=9 { s:/a d=2 df=7 { s:/b { r:/{id} ( GET>1 POST>2 ) } }  r:/{t}* ( *>3 ) }` -/
def exApp : App MiniPat :=
  { data := some 1
    dflt := some 9
    children :=
      [ .scope [[.lit ['/', 'a']]] [] (some 2)
          [ .scope [[.lit ['/', 'b']]] [] none
              [ .resource [[.lit ['/'], .var "id"]] [] none
                  [⟨[.method "GET"], 1⟩, ⟨[.method "POST"], 2⟩] none ] none ] (some 7),
        .resource [[.lit ['/'], .rest "t"]] [] none [⟨[], 3⟩] none ] }

def exReq (m : String) (raw : Chars) : Req := { method := m, path := requote raw, headers := [] }

/-- the patterns above are what `parsePattern` yields -/
example : parsePattern ['/', '{', 'i', 'd', '}'] = [.lit ['/'], .var "id"] ∧
    parsePattern ['/', '{', 't', '}', '*'] = [.lit ['/'], .rest "t"] := by decide +kernel

/-- `POST /a/b/x%2Fy`: first match, parameters with offsets into the full path, innermost data -/
example : routeApp miniMatch exApp (exReq "POST" ['/', 'a', '/', 'b', '/', 'x', '%', '2', 'F', 'y']) =
    ⟨.handler 2, ⟨10, [("id", 5, 10)], [1, 2], [0, 0, 0]⟩⟩ := by decide +kernel
example : matchInfo (exReq "POST" ['/', 'a', '/', 'b', '/', 'x', '%', '2', 'F', 'y'])
      (routeApp miniMatch exApp (exReq "POST" ['/', 'a', '/', 'b', '/', 'x', '%', '2', 'F', 'y'])) =
    [("id", ['x', '%', '2', 'F', 'y'])] := by decide +kernel
/-- `GET /a/b/x/y`: commitment + nearest default — never offered to the later tail resource; the
inner scope has no default, the enclosing scope's one answers, with the scope's data -/
example : routeApp miniMatch exApp (exReq "GET" ['/', 'a', '/', 'b', '/', 'x', '/', 'y']) =
    ⟨.dflt 7, ⟨4, [], [1, 2], [0, 0]⟩⟩ := by decide +kernel
/-- … although a chain of matching services to the tail resource's route exists for that request
(commitment: "first registered match" is decided level by level) -/
example : ∃ c st₂ t, Chain miniMatch (exReq "GET" ['/', 'a', '/', 'b', '/', 'x', '/', 'y']) exApp.children
    (St.init exApp) c st₂ ∧ c.getLast? = some t ∧ t.idx = 1 ∧ t.node.isPrefix = false := by
  refine ⟨[⟨.resource [[.lit ['/'], .rest "t"]] [] none [⟨[], 3⟩] none, 1, 8, [("t", 1, 8)]⟩], _,
    _, Chain.cons _ rfl ⟨by decide +kernel, by intro g hg; cases hg⟩ Chain.nil, rfl, rfl, rfl⟩
/-- `PUT /a/b/x`: 405 — matched resource, no route for the method, no registered resource default -/
example : (routeApp miniMatch exApp (exReq "PUT" ['/', 'a', '/', 'b', '/', 'x'])).target = .notAllowed := by
  decide +kernel
/-- `GET /a%2Fb/x`: `%2F` is not a boundary, the request is not inside scope `/a` -/
example : (routeApp miniMatch exApp (exReq "GET" ['/', 'a', '%', '2', 'F', 'b', '/', 'x'])).target = .handler 3 := by
  decide +kernel
/-- `GET /%61/b/5`: `%61` is decoded to `a` before matching -/
example : (routeApp miniMatch exApp (exReq "GET" ['/', '%', '6', '1', '/', 'b', '/', '5'])).target = .handler 1 := by
  decide +kernel
/-- a chosen path exists for every request (the hypothesis of the path theorems); here it has
three steps -/
example : ∃ steps st', ChosenPath miniMatch exApp (exReq "GET" ['/', 'a', '/', 'b', '/', '5']) steps st' ∧
    steps.length = 3 := by
  obtain ⟨steps, hc, _⟩ := C09_path_unique miniMatch exApp (exReq "GET" ['/', 'a', '/', 'b', '/', '5'])
  refine ⟨steps, _, hc, ?_⟩
  have h4 := (C09_params_exact miniMatch exApp _ steps _ hc).2.2.2.1
  have hl : (routeApp miniMatch exApp (exReq "GET" ['/', 'a', '/', 'b', '/', '5'])).st.ids = [0, 0, 0] := by
    decide +kernel
  rw [hl] at h4
  have := congrArg List.length h4
  simpa using this.symm

/-- hypothesis of `C09_append_stable` / `C09_later_irrelevant`: for `GET /a/b/5` the first top-level
service (scope `/a`) matches, so anything registered after it is irrelevant -/
example : ∃ c ∈ exApp.children,
    ¬ Rejects miniMatch (exReq "GET" ['/', 'a', '/', 'b', '/', '5']) c (St.init exApp) := by
  refine ⟨_, List.mem_cons_self, fun h => h 2 [] ⟨by decide +kernel, ?_⟩⟩
  intro g hg; cases hg

/-- literal text after a dynamic segment is compared literally (`ResourceDef::parse` escapes it) and
the segment gives characters back until it matches: `/{name}.j` on `/a.b.j`, `/a-j`, `/a/j` -/
example :
    miniMatch [[.lit ['/'], .var "name", .lit ['.', 'j']]] false ['/', 'a', '.', 'b', '.', 'j'] =
      some (6, [("name", 1, 4)]) ∧
    miniMatch [[.lit ['/'], .var "name", .lit ['.', 'j']]] false ['/', 'a', '-', 'j'] = none ∧
    miniMatch [[.lit ['/'], .var "name", .lit ['.', 'j']]] false ['/', 'a', '/', 'j'] = none := by
  decide +kernel

end Examples
end ActixModel.Route.C09
