import ActixModel.Proofs.QuoterSpec
/-
C10 — path patterns match exactly their language; partial percent-decoding decodes every
non-protected valid escape and nothing else.

Spec definitions: `ActixModel/Spec/C10.lean` (`escapeSpec`, `decodeSpec`, `requoteSpec`,
`encodeAll`; `splitOn` is in `Proofs/Quoter.lean`).  This file: the property theorems only.

Part 1: `Quoter` (`actix-router/src/quoter.rs`), model `Model/Quoter.lean`.
All theorems quantify over every byte string and every protected set; nothing is bounded.
-/
namespace ActixModel.C10
open ActixModel.Quoter

/-! ## Theorems -/

/-- **C10_requote_spec**: for every protected set accepted by `Quoter::new` and every byte
string, `requote` is the specified left-to-right partial decoding, and it returns `None`
exactly when no position holds a valid non-protected escape. -/
theorem C10_requote_spec {prot : Bytes} {q : Quoter} (hq : Quoter.mk? prot = some q) (s : Bytes) :
    q.requote s = requoteSpec prot s := by
  rw [requote_eq, requoteSpec, decodeAll_eq_spec hq]
  by_cases hd : (q.decodeNext s).isSome
  · have : ∃ i, i < s.length ∧ (escapeSpec prot (s.drop i)).isSome := by
      cases hn : q.decodeNext s with
      | none => rw [hn] at hd; cases hd
      | some r =>
        by_cases hex : ∃ i, (q.escapeAt (s.drop i)).isSome
        · obtain ⟨i, hi⟩ := hex
          refine ⟨i, ?_, ?_⟩
          · by_cases hlt : i < s.length
            · exact hlt
            · rw [List.drop_eq_nil_of_le (by omega)] at hi
              simp [Quoter.escapeAt] at hi
          · rw [← escapeAt_eq_spec hq]; simpa using hi
        · exfalso
          -- no escape anywhere ⇒ decodeNext = none
          have hall : ∀ i, q.escapeAt (s.drop i) = none := by
            intro i
            cases h : q.escapeAt (s.drop i) with
            | none => rfl
            | some _ => exact absurd ⟨i, by simp [h]⟩ hex
          have : ∀ (t : Bytes), (∀ i, q.escapeAt (t.drop i) = none) → q.decodeNext t = none := by
            intro t
            induction t with
            | nil => intro _; rfl
            | cons b rest iht =>
              intro hall
              simp only [Quoter.decodeNext]
              have h0 := hall 0
              simp only [List.drop_zero] at h0
              rw [h0]
              simp only
              rw [iht (fun i => by simpa using hall (i + 1))]
          rw [this s hall] at hn
          cases hn
    simp [hd, this]
  · have : ¬ ∃ i, i < s.length ∧ (escapeSpec prot (s.drop i)).isSome := by
      rintro ⟨i, _, hi⟩
      apply hd
      apply decodeNext_isSome_of_escapeAt s i
      rw [← escapeAt_eq_spec hq] at hi
      simpa using hi
    simp [hd, this]

/-- `Quoter::new` panics exactly when a protected byte is outside ASCII (documented). -/
theorem C10_quoter_new_total (prot : Bytes) :
    (Quoter.mk? prot).isSome = prot.all (fun c => decide (c < 128)) :=
  mk?_isSome prot

/-- **C10_requote_slash** (general form): if the separator `sep` is protected (and, like `/`, is
neither `%` nor a hex digit), then splitting the decoded string at `sep` yields exactly the
decoded segments of the input: no `sep` is created, none is destroyed, and every one stays
between the same two segments. -/
theorem C10_requote_sep {prot : Bytes} {q : Quoter} (hq : Quoter.mk? prot = some q)
    (sep : UInt8) (hsep : sep ∈ prot) (h37 : sep ≠ 37) (hhex : isHexDigit sep = false) (s : Bytes) :
    splitOn sep (decodeSpec prot s) = (splitOn sep s).map (decodeSpec prot) := by
  have hp : q.isProtected sep = true := by rw [isProtected_mk hq]; simpa using hsep
  have hh : hexVal sep = none := by rw [hexVal_eq]; simp [hhex]
  have := splitOn_decodeAll q sep hp h37 hh s
  rw [decodeAll_eq_spec hq] at this
  rw [this]
  apply List.map_congr_left
  intro a _
  exact decodeAll_eq_spec hq a

example : Quoter.mk? [37, 47, 43] = some defaultQuoter := rfl

/-- **C10_requote_slash**: the default quoter of `Url::new` (protected `%/+`) preserves the
segment structure of every path: `split('/')` commutes with decoding. -/
theorem C10_requote_slash (s : Bytes) :
    splitOn 47 (defaultQuoter.decodeAll s) = (splitOn 47 s).map defaultQuoter.decodeAll := by
  apply splitOn_decodeAll defaultQuoter 47 <;> decide

/-- the number of `/` never changes (default quoter) -/
theorem C10_requote_slash_count (s : Bytes) :
    (defaultQuoter.decodeAll s).count 47 = s.count 47 := by
  apply count_decodeAll defaultQuoter 47 <;> decide

/-- what `requote` returns is that decoding (so the two theorems above are about `requote`) -/
theorem C10_requote_value (q : Quoter) (s out : Bytes) (h : q.requote s = some out) :
    out = q.decodeAll s := by
  rw [requote_eq] at h
  split at h
  · injection h with h; exact h.symm
  · cases h

/-- **C10_requote_only_valid** (1): a string without any valid non-protected escape is left
alone (`None`): invalid/incomplete sequences and protected escapes are passed unmodified. -/
theorem C10_requote_only_valid {prot : Bytes} {q : Quoter} (hq : Quoter.mk? prot = some q)
    (s : Bytes) (h : ∀ i, escapeSpec prot (s.drop i) = none) : q.requote s = none := by
  rw [C10_requote_spec hq, requoteSpec, if_neg]
  rintro ⟨i, _, hi⟩
  rw [h i] at hi; cases hi

example : escapeSpec [37, 47, 43] [37, 50, 70] = none := by decide          -- "%2F" protected
example : escapeSpec [37, 47, 43] [37, 50, 120] = none := by decide         -- "%2x" invalid
example : escapeSpec [37, 47, 43] [37, 50, 68] = some 45 := by decide       -- "%2D" → '-'

/-- **C10_requote_only_valid** (2): decoding shortens by exactly two bytes per decoded escape;
with (1): the output differs from the input only at decoded escapes. -/
theorem C10_decode_length (prot : Bytes) (s : Bytes) :
    (decodeSpec prot s).length ≤ s.length ∧ (s.length - (decodeSpec prot s).length) % 2 = 0 := by
  induction hn : s.length using Nat.strongRecOn generalizing s with
  | _ n ih =>
  subst hn
  cases s with
  | nil => rw [decodeSpec]; simp
  | cons b rest =>
    rw [decodeSpec]
    cases he : escapeSpec prot (b :: rest) with
    | some v =>
      simp only
      have := ih _ (by simp only [List.length_drop, List.length_cons]; omega) (rest.drop 2) rfl
      have hlen : 2 ≤ rest.length := by
        match rest, he with
        | _ :: _ :: _, _ => simp
      simp only [List.length_cons, List.length_drop] at this ⊢
      omega
    | none =>
      simp only
      have := ih _ (by simp) rest rfl
      simp only [List.length_cons]
      omega

/-- **C10_requote_roundtrip**: percent-encoding every byte and decoding gives the original bytes
back, except that protected bytes stay encoded (every non-protected valid escape is decoded,
nothing else is). -/
theorem C10_requote_roundtrip (prot : Bytes) (bs : Bytes) :
    decodeSpec prot (encodeAll bs) =
      bs.flatMap (fun b => if b ∈ prot then encodeAll [b] else [b]) := by
  induction bs with
  | nil => simp [encodeAll, decodeSpec]
  | cons b rest ih =>
    have hi := hexChar_table (b.toNat / 16) (by have := b.toNat_lt; omega)
    have lo := hexChar_table (b.toNat % 16) (by omega)
    have hv : UInt8.ofNat (16 * (b.toNat / 16) + b.toNat % 16) = b := by
      have : 16 * (b.toNat / 16) + b.toNat % 16 = b.toNat := by omega
      rw [this]; simp
    have hesc : escapeSpec prot (encodeAll (b :: rest)) = if b ∈ prot then none else some b := by
      rw [encodeAll, escapeSpec_cons3, if_pos ⟨rfl, hi.1, lo.1⟩, hi.2, lo.2, hv]
    by_cases hb : b ∈ prot
    · -- protected: the three bytes are copied; `%` is not an escape start, the two hex digits
      -- are not `%`
      rw [if_pos hb] at hesc
      have h1 : ∀ x, escapeSpec prot (hexChar (b.toNat / 16) :: x) = none :=
        escapeSpec_ne37 prot _ (hexChar_ne37 _ (by have := b.toNat_lt; omega))
      have h2 : ∀ x, escapeSpec prot (hexChar (b.toNat % 16) :: x) = none :=
        escapeSpec_ne37 prot _ (hexChar_ne37 _ (by omega))
      simp only [List.flatMap_cons, if_pos hb]
      rw [← ih]
      simp only [encodeAll] at hesc ⊢
      rw [decodeSpec, hesc]
      simp only
      rw [decodeSpec, h1]
      simp only
      rw [decodeSpec, h2]
      simp
    · rw [if_neg hb] at hesc
      simp only [List.flatMap_cons, if_neg hb]
      rw [← ih]
      simp only [encodeAll] at hesc ⊢
      rw [decodeSpec, hesc]
      simp

end ActixModel.C10
