import ActixModel.Proofs.QuoterSpec
import ActixModel.Proofs.PatternDef
/-
C10 — path patterns match exactly their language; partial percent-decoding decodes every
non-protected valid escape and nothing else.

Spec definitions: `ActixModel/Spec/C10.lean` (`escapeSpec`, `decodeSpec`, `requoteSpec`,
`encodeAll`; `splitOn` is in `Proofs/Quoter.lean`).  This file: the property theorems only.

Part 1: `Quoter` (`actix-router/src/quoter.rs`), model `Model/Quoter.lean`.
All theorems quantify over every byte string and every protected set; nothing is bounded.
-/
namespace ActixModel.C10
open ActixModel.Quoter

/-! ## Theorems -/

/-- **C10_requote_spec**: for every protected set accepted by `Quoter::new` and every byte
string, `requote` is the specified left-to-right partial decoding, and it returns `None`
exactly when no position holds a valid non-protected escape. -/
theorem C10_requote_spec {prot : Bytes} {q : Quoter} (hq : Quoter.mk? prot = some q) (s : Bytes) :
    q.requote s = requoteSpec prot s := by
  rw [requote_eq, requoteSpec, decodeAll_eq_spec hq]
  by_cases hd : (q.decodeNext s).isSome
  · have : ∃ i, i < s.length ∧ (escapeSpec prot (s.drop i)).isSome := by
      cases hn : q.decodeNext s with
      | none => rw [hn] at hd; cases hd
      | some r =>
        by_cases hex : ∃ i, (q.escapeAt (s.drop i)).isSome
        · obtain ⟨i, hi⟩ := hex
          refine ⟨i, ?_, ?_⟩
          · by_cases hlt : i < s.length
            · exact hlt
            · rw [List.drop_eq_nil_of_le (by omega)] at hi
              simp [Quoter.escapeAt] at hi
          · rw [← escapeAt_eq_spec hq]; simpa using hi
        · exfalso
          -- no escape anywhere ⇒ decodeNext = none
          have hall : ∀ i, q.escapeAt (s.drop i) = none := by
            intro i
            cases h : q.escapeAt (s.drop i) with
            | none => rfl
            | some _ => exact absurd ⟨i, by simp [h]⟩ hex
          have : ∀ (t : Bytes), (∀ i, q.escapeAt (t.drop i) = none) → q.decodeNext t = none := by
            intro t
            induction t with
            | nil => intro _; rfl
            | cons b rest iht =>
              intro hall
              simp only [Quoter.decodeNext]
              have h0 := hall 0
              simp only [List.drop_zero] at h0
              rw [h0]
              simp only
              rw [iht (fun i => by simpa using hall (i + 1))]
          rw [this s hall] at hn
          cases hn
    simp [hd, this]
  · have : ¬ ∃ i, i < s.length ∧ (escapeSpec prot (s.drop i)).isSome := by
      rintro ⟨i, _, hi⟩
      apply hd
      apply decodeNext_isSome_of_escapeAt s i
      rw [← escapeAt_eq_spec hq] at hi
      simpa using hi
    simp [hd, this]

/-- `Quoter::new` panics exactly when a protected byte is outside ASCII (documented). -/
theorem C10_quoter_new_total (prot : Bytes) :
    (Quoter.mk? prot).isSome = prot.all (fun c => decide (c < 128)) :=
  mk?_isSome prot

/-- **C10_requote_slash** (general form): if the separator `sep` is protected (and, like `/`, is
neither `%` nor a hex digit), then splitting the decoded string at `sep` yields exactly the
decoded segments of the input: no `sep` is created, none is destroyed, and every one stays
between the same two segments. -/
theorem C10_requote_sep {prot : Bytes} {q : Quoter} (hq : Quoter.mk? prot = some q)
    (sep : UInt8) (hsep : sep ∈ prot) (h37 : sep ≠ 37) (hhex : isHexDigit sep = false) (s : Bytes) :
    splitOn sep (decodeSpec prot s) = (splitOn sep s).map (decodeSpec prot) := by
  have hp : q.isProtected sep = true := by rw [isProtected_mk hq]; simpa using hsep
  have hh : hexVal sep = none := by rw [hexVal_eq]; simp [hhex]
  have := splitOn_decodeAll q sep hp h37 hh s
  rw [decodeAll_eq_spec hq] at this
  rw [this]
  apply List.map_congr_left
  intro a _
  exact decodeAll_eq_spec hq a

example : Quoter.mk? [37, 47, 43] = some defaultQuoter := rfl
-- `/` satisfies the hypotheses on the separator
example : (47 : UInt8) ∈ [37, 47, 43] ∧ (47 : UInt8) ≠ 37 ∧ isHexDigit 47 = false := by decide

/-- **C10_requote_slash**: the default quoter of `Url::new` (protected `%/+`) preserves the
segment structure of every path: `split('/')` commutes with decoding. -/
theorem C10_requote_slash (s : Bytes) :
    splitOn 47 (defaultQuoter.decodeAll s) = (splitOn 47 s).map defaultQuoter.decodeAll := by
  apply splitOn_decodeAll defaultQuoter 47 <;> decide

/-- the number of `/` never changes (default quoter) -/
theorem C10_requote_slash_count (s : Bytes) :
    (defaultQuoter.decodeAll s).count 47 = s.count 47 := by
  apply count_decodeAll defaultQuoter 47 <;> decide

/-- what `requote` returns is that decoding (so the two theorems above are about `requote`) -/
theorem C10_requote_value (q : Quoter) (s out : Bytes) (h : q.requote s = some out) :
    out = q.decodeAll s := by
  rw [requote_eq] at h
  split at h
  · injection h with h; exact h.symm
  · cases h

/-- **C10_requote_only_valid** (1): a string without any valid non-protected escape is left
alone (`None`): invalid/incomplete sequences and protected escapes are passed unmodified. -/
theorem C10_requote_only_valid {prot : Bytes} {q : Quoter} (hq : Quoter.mk? prot = some q)
    (s : Bytes) (h : ∀ i, escapeSpec prot (s.drop i) = none) : q.requote s = none := by
  rw [C10_requote_spec hq, requoteSpec, if_neg]
  rintro ⟨i, _, hi⟩
  rw [h i] at hi; cases hi

example : escapeSpec [37, 47, 43] [37, 50, 70] = none := by decide          -- "%2F" protected
example : escapeSpec [37, 47, 43] [37, 50, 120] = none := by decide         -- "%2x" invalid
example : escapeSpec [37, 47, 43] [37, 50, 68] = some 45 := by decide       -- "%2D" → '-'

/-- **C10_requote_only_valid** (2): decoding shortens by exactly two bytes per decoded escape;
with (1): the output differs from the input only at decoded escapes. -/
theorem C10_decode_length (prot : Bytes) (s : Bytes) :
    (decodeSpec prot s).length ≤ s.length ∧ (s.length - (decodeSpec prot s).length) % 2 = 0 := by
  induction hn : s.length using Nat.strongRecOn generalizing s with
  | _ n ih =>
  subst hn
  cases s with
  | nil => rw [decodeSpec]; simp
  | cons b rest =>
    rw [decodeSpec]
    cases he : escapeSpec prot (b :: rest) with
    | some v =>
      simp only
      have := ih _ (by simp only [List.length_drop, List.length_cons]; omega) (rest.drop 2) rfl
      have hlen : 2 ≤ rest.length := by
        match rest, he with
        | _ :: _ :: _, _ => simp
      simp only [List.length_cons, List.length_drop] at this ⊢
      omega
    | none =>
      simp only
      have := ih _ (by simp) rest rfl
      simp only [List.length_cons]
      omega

/-- **C10_requote_roundtrip**: percent-encoding every byte and decoding gives the original bytes
back, except that protected bytes stay encoded (every non-protected valid escape is decoded,
nothing else is). -/
theorem C10_requote_roundtrip (prot : Bytes) (bs : Bytes) :
    decodeSpec prot (encodeAll bs) =
      bs.flatMap (fun b => if b ∈ prot then encodeAll [b] else [b]) := by
  induction bs with
  | nil => simp [encodeAll, decodeSpec]
  | cons b rest ih =>
    have hi := hexChar_table (b.toNat / 16) (by have := b.toNat_lt; omega)
    have lo := hexChar_table (b.toNat % 16) (by omega)
    have hv : UInt8.ofNat (16 * (b.toNat / 16) + b.toNat % 16) = b := by
      have : 16 * (b.toNat / 16) + b.toNat % 16 = b.toNat := by omega
      rw [this]; simp
    have hesc : escapeSpec prot (encodeAll (b :: rest)) = if b ∈ prot then none else some b := by
      rw [encodeAll, escapeSpec_cons3, if_pos ⟨rfl, hi.1, lo.1⟩, hi.2, lo.2, hv]
    by_cases hb : b ∈ prot
    · -- protected: the three bytes are copied; `%` is not an escape start, the two hex digits
      -- are not `%`
      rw [if_pos hb] at hesc
      have h1 : ∀ x, escapeSpec prot (hexChar (b.toNat / 16) :: x) = none :=
        escapeSpec_ne37 prot _ (hexChar_ne37 _ (by have := b.toNat_lt; omega))
      have h2 : ∀ x, escapeSpec prot (hexChar (b.toNat % 16) :: x) = none :=
        escapeSpec_ne37 prot _ (hexChar_ne37 _ (by omega))
      simp only [List.flatMap_cons, if_pos hb]
      rw [← ih]
      simp only [encodeAll] at hesc ⊢
      rw [decodeSpec, hesc]
      simp only
      rw [decodeSpec, h1]
      simp only
      rw [decodeSpec, h2]
      simp
    · rw [if_neg hb] at hesc
      simp only [List.flatMap_cons, if_neg hb]
      rw [← ih]
      simp only [encodeAll] at hesc ⊢
      rw [decodeSpec, hesc]
      simp


/-! # Part 2: path patterns (`actix-router/src/resource.rs`), model `Model/Pattern.lean`

Spec: `Spec/C10.lean` — `LangRe`, `LangSegs`, `SuffixOk`, `LangDyn`, `Matches` (inductive language
of a pattern, no priorities), `Substr`, `SpansOk`.  `fresh path` is `Path::new(path)`.
All theorems quantify over every `ResourceDef` value of the model (static, dynamic with any
regex of the fragment, pattern lists of any length), every path (any Unicode string, any
length unless a bound is stated).  -/

open ActixModel.Pattern

/-- **C10_three_agree**: for every resource definition and every path, `is_match` and
`find_match` agree, and `capture_match_info` (on a fresh `Path`) never panics; for every path up
to the 64 KiB URL limit `capture_match_info` agrees with them on *whether* the path matches, and
the matched length stored in the path is exactly the one `find_match` reports.
(Beyond the limit the dynamic arms refuse the path since fix 448eed6 — `C10_long_path_refused`,
`witness_three_disagree_beyond_64k` — so the bound cannot be dropped.) -/
theorem C10_three_agree (rd : ResourceDef) (path : List Char) :
    rd.isMatch path = (rd.findMatch path).isSome ∧
    rd.captureMatchInfo (fresh path) ≠ .panic ∧
    (blen path < 65536 →
      (rd.captureMatchInfo (fresh path) = .noMatch ↔ rd.isMatch path = false) ∧
      (∀ n, rd.findMatch path = some n →
        ∃ segs, rd.captureMatchInfo (fresh path) =
          .matched { path := path, skip := n, segments := segs })) := by
  have hle := findMatch_le rd path
  unfold ResourceDef.isMatch ResourceDef.findMatch ResourceDef.captureMatchInfo at *
  cases hpt : rd.patType with
  | «static» p =>
    rw [hpt] at hle
    simp only [fresh_unprocessed] at hle ⊢
    cases hs : staticMatch rd.isPrefix p path with
    | none => simp
    | some len =>
      refine ⟨by simp, by simp [commit_fresh], ?_⟩
      intro hlen
      refine ⟨by simp [commit_fresh], ?_⟩
      intro n hn
      injection hn with hn
      subst hn
      have hnn : asU16 len = len := asU16_of_lt (by have := hle len hs; omega)
      exact ⟨[], by show commit (fresh path) len [] = _; rw [commit_fresh path len [] (by simp), hnn]⟩
  | dynamic d =>
    rw [hpt] at hle
    simp only at hle ⊢
    refine ⟨dyn_agree d path, ?_, ?_⟩
    · cases hg : (fresh path).tooLong with
      | true => simp
      | false =>
        simp only [Bool.false_eq_true, if_false]
        cases hc : d.captures path with
        | none => rw [captureDyn_fresh_none hc]; simp
        | some r =>
          obtain ⟨n, caps⟩ := r
          obtain ⟨vars, _, hm⟩ := captureDyn_fresh_some hc
          rw [hm]; simp
    · intro hlen
      rw [tooLong_false (p := fresh path) hlen]
      simp only [Bool.false_eq_true, if_false]
      cases hc : d.captures path with
      | none =>
        rw [captureDyn_fresh_none hc]
        have := captures_isSome d path
        rw [hc] at this
        simp [← this]
      | some r =>
        obtain ⟨n, caps⟩ := r
        obtain ⟨vars, _, hm⟩ := captureDyn_fresh_some hc
        rw [hm]
        have := captures_isSome d path
        rw [hc] at this
        refine ⟨by simp [← this], ?_⟩
        intro n' hn'
        simp only [Option.map_some, Option.some.injEq] at hn'
        subst hn'
        have hnn : asU16 n = n := asU16_of_lt (by have := hle n (by rw [hc]; rfl); omega)
        exact ⟨vars, by rw [hnn]⟩
  | dynamicSet ds =>
    rw [hpt] at hle
    simp only [fresh_unprocessed] at hle ⊢
    cases hf : firstMatchIdx ds path with
    | none =>
      have := firstMatchIdx_none.mp hf
      refine ⟨by simp [this], ?_, ?_⟩
      · cases (fresh path).tooLong <;> simp
      · intro _; cases (fresh path).tooLong <;> simp [this]
    | some i =>
      obtain ⟨d, hget, hm, _⟩ := firstMatchIdx_some hf
      have hany : ds.any (·.isMatchRe path) = true :=
        List.any_eq_true.mpr ⟨d, List.mem_of_getElem? hget, hm⟩
      rw [hf] at hle
      simp only [hget, hany] at hle ⊢
      have hsome : (d.captures path).isSome = true := by rw [captures_isSome]; exact hm
      cases hc : d.captures path with
      | none => rw [hc] at hsome; cases hsome
      | some r =>
        obtain ⟨n, caps⟩ := r
        obtain ⟨vars, _, hcm⟩ := captureDyn_fresh_some hc
        refine ⟨by simp, ?_, ?_⟩
        · cases (fresh path).tooLong <;> simp [hcm]
        · intro hlen
          rw [tooLong_false (p := fresh path) hlen]
          refine ⟨by simp [hcm], ?_⟩
          intro n' hn'
          simp only [Option.map_some, Option.some.injEq] at hn'
          subst hn'
          have hnn : asU16 n = n := asU16_of_lt (by have := hle n (by rw [hc]; rfl); omega)
          exact ⟨vars, by simp [hcm, hnn]⟩

/-- **C10_long_path_refused** (fix 448eed6): a path longer than `u16::MAX` bytes is never
captured by a dynamic pattern or a pattern list — whatever `skip` is — so for these the `u16`
offsets can neither truncate nor overflow. -/
theorem C10_long_path_refused (rd : ResourceDef) (st : PathState) (hlong : 65535 < blen st.path)
    (hdyn : ∀ p, rd.patType ≠ .static p) : rd.captureMatchInfo st = .noMatch := by
  unfold ResourceDef.captureMatchInfo
  cases hpt : rd.patType with
  | «static» p => exact absurd hpt (hdyn p)
  | dynamic d => simp [tooLong_true hlong]
  | dynamicSet ds => simp [tooLong_true hlong]

example : ∃ rd, parsePattern false (.single ['/', 'u', '/', '{', 'i', 'd', '}']) = .ok rd ∧
    rd.isMatch ['/', 'u', '/', '7'] = true ∧ rd.findMatch ['/', 'u', '/', '7'] = some 4 := by
  refine ⟨_, rfl, ?_, ?_⟩ <;> decide

/-- **C10_sound**: whenever `capture_match_info` succeeds on a path shorter than 64 KiB, the
path is in the pattern's language (`Matches`: static text / segment languages / boundary suffix /
first matching pattern of a list), the stored matched length is the byte length of the matched
prefix, and the stored segments are, in order and under the right names, the byte spans of the
values — **C10_captures_exact** (1): every captured value is the substring at its offsets. -/
theorem C10_sound (rd : ResourceDef) (hwf : DefWF rd) (path : List Char) (hlen : blen path < 65536)
    (st : PathState) (h : rd.captureMatchInfo (fresh path) = .matched st) :
    ∃ vals, Matches rd path st.skip vals ∧ st.path = path ∧ SpansOk path st.skip st.segments vals := by
  unfold ResourceDef.captureMatchInfo at h
  unfold Matches
  unfold DefWF at hwf
  cases hpt : rd.patType with
  | «static» p =>
    rw [hpt] at h
    simp only [fresh_unprocessed] at h
    cases hs : staticMatch rd.isPrefix p path with
    | none => rw [hs] at h; cases h
    | some len =>
      rw [hs] at h
      simp only at h
      rw [commit_fresh path len [] (by simp)] at h
      injection h with h
      subst h
      obtain ⟨rest, hp, hn, hb⟩ := (static_iff _ _ _ _).mp hs
      have : asU16 len = len := asU16_of_lt (by
        have := blen_le_of_append hp; omega)
      exact ⟨[], ⟨rest, hp, by rw [this]; exact hn, rfl, hb⟩, rfl, by simp [SpansOk]⟩
  | dynamic d =>
    rw [hpt] at h hwf
    simp only [tooLong_false (p := fresh path) hlen, Bool.false_eq_true, if_false] at h
    exact captureDyn_sound hwf hlen h
  | dynamicSet ds =>
    rw [hpt] at h hwf
    simp only [fresh_unprocessed, tooLong_false (p := fresh path) hlen, Bool.false_eq_true, if_false] at h
    cases hf : firstMatchIdx ds path with
    | none => rw [hf] at h; cases h
    | some i =>
      rw [hf] at h
      obtain ⟨d, hget, hm, hfirst⟩ := firstMatchIdx_some hf
      simp only [hget] at h
      obtain ⟨vals, hl, hp, hs⟩ := captureDyn_sound (hwf d (List.mem_of_getElem? hget)) hlen h
      refine ⟨vals, ⟨i, d, hget, hl, ?_⟩, hp, hs⟩
      intro j d' hj hget' hex
      have := hfirst j d' hj hget'
      rw [(isMatchRe_iff d' path).mpr hex] at this
      cases this

-- the hypotheses of `C10_sound` are satisfiable: a parsed definition, a short path, a real match
example : DefWF ⟨false, .dynamic ⟨[.const ['/'], .var ['a'] defaultRe], .eos⟩, []⟩ ∧
    blen ['/', 'é', '1'] < 65536 ∧
    (ResourceDef.mk false (.dynamic ⟨[.const ['/'], .var ['a'] defaultRe], .eos⟩) []).captureMatchInfo
      (fresh ['/', 'é', '1']) = .matched { path := ['/', 'é', '1'], skip := 4, segments := [(['a'], 1, 4)] } := by
  refine ⟨?_, by decide, by decide⟩
  show allDistinct _ = true
  decide

/-- **C10_complete**: every path in the pattern's language is matched (by all three ways, by
`C10_three_agree`). -/
theorem C10_complete (rd : ResourceDef) (path : List Char) (n : Nat) (vals : List (Name × List Char))
    (h : Matches rd path n vals) : rd.isMatch path = true := by
  unfold Matches at h
  unfold ResourceDef.isMatch
  cases hpt : rd.patType with
  | «static» p =>
    rw [hpt] at h
    obtain ⟨rest, hp, hn, _, hb⟩ := h
    have := (static_iff rd.isPrefix p path n).mpr ⟨rest, hp, hn, hb⟩
    simp [this]
  | dynamic d =>
    rw [hpt] at h
    exact (isMatchRe_iff d path).mpr ⟨n, vals, h⟩
  | dynamicSet ds =>
    rw [hpt] at h
    obtain ⟨i, d, hget, hl, _⟩ := h
    exact List.any_eq_true.mpr ⟨d, List.mem_of_getElem? hget, (isMatchRe_iff d path).mpr ⟨n, vals, hl⟩⟩

/-- the language of the default segment `[^/]+` is "a non-empty run without `/`" -/
theorem C10_default_segment (w : List Char) : LangRe defaultRe w ↔ (w ≠ [] ∧ '/' ∉ w) := by
  constructor
  · intro h
    cases h with
    | cons hr hl =>
      have := langRe_nil hl
      subst this
      obtain ⟨hall, hmin, _⟩ := hr
      rename_i w'
      simp only [List.append_nil]
      refine ⟨by intro e; subst e; simp at hmin, ?_⟩
      intro hmem
      have := hall '/' hmem
      simp [Atom.matches, inRanges] at this
  · rintro ⟨hne, hno⟩
    have : LangRe defaultRe (w ++ []) := by
      refine .cons ⟨?_, ?_, by simp⟩ .nil
      · intro c hc
        have hc' : c ≠ '/' := by intro e; subst e; exact hno hc
        simp only [Atom.matches, inRanges, Bool.or_false, bne_iff_ne, ne_eq, Bool.true_eq,
          Bool.and_eq_true, decide_eq_true_eq, not_and]
        intro h1 h2
        exact hc' (Char.le_antisymm h2 h1)
      · cases w with
        | nil => exact absurd rfl hne
        | cons _ _ => simp
    simpa using this

/-- the language of a tail segment `.*` is every string (including `/` and newlines) -/
theorem C10_tail_segment (w : List Char) : LangRe tailRe w := by
  have : LangRe tailRe (w ++ []) := .cons ⟨by intro c _; rfl, by simp, by simp⟩ .nil
  simpa using this

/-- **witness_three_disagree_beyond_64k**: the bound in `C10_three_agree` cannot be dropped: on the
65 536-byte path `/aaa…a` the pattern `/{a}` still *matches* (`is_match`), but
`capture_match_info` refuses it. -/
theorem witness_three_disagree_beyond_64k :
    (ResourceDef.mk false (.dynamic ⟨[.const ['/'], .var ['a'] defaultRe], .eos⟩) []).isMatch
        ('/' :: List.replicate 65535 'a') = true ∧
    (ResourceDef.mk false (.dynamic ⟨[.const ['/'], .var ['a'] defaultRe], .eos⟩) []).captureMatchInfo
        (fresh ('/' :: List.replicate 65535 'a')) = .noMatch := by
  have key : ∀ n, 0 < n →
      (ResourceDef.mk false (.dynamic ⟨[.const ['/'], .var ['a'] defaultRe], .eos⟩) []).isMatch
        ('/' :: List.replicate n 'a') = true := by
    intro n hn
    have hre : LangRe defaultRe (List.replicate n 'a') := by
      refine (C10_default_segment _).mpr ⟨?_, ?_⟩
      · intro h; have := congrArg List.length h; simp at this; omega
      · intro h; have := List.eq_of_mem_replicate h; cases this
    have hv : LangSegs [.var ['a'] defaultRe] (List.replicate n 'a') [(['a'], List.replicate n 'a')] := by
      have := LangSegs.var (n := ['a']) hre .nil
      rwa [List.append_nil] at this
    have hl : LangSegs [.const ['/'], .var ['a'] defaultRe] ('/' :: List.replicate n 'a')
        [(['a'], List.replicate n 'a')] := LangSegs.const (cs := ['/']) hv
    exact (isMatchRe_iff _ _).mpr ⟨_, _, _, [], (List.append_nil _).symm, hl, rfl, rfl⟩
  refine ⟨key 65535 (by decide), C10_long_path_refused _ _ ?_ (by intro p h; cases h)⟩
  show 65535 < '/'.utf8Size + blen (List.replicate 65535 'a')
  rw [blen_replicate_a]
  decide

/-- **C10_parse_param**: the parser really gives `{name}` the default language and `{name}*`
(at the very end of the pattern) the tail language: for every name without braces and colon,
`parse_param` returns the default regex `[^/]+` with the rest of the pattern untouched, or — iff
the rest is exactly `*` — the tail regex `.*`, the tail flag, and nothing left. -/
theorem C10_parse_param (name rest : List Char) (hn : plainName name) :
    parseParam ('{' :: name ++ '}' :: rest) =
      if rest = ['*'] then .ok ⟨name, tailRe, [], true⟩ else .ok ⟨name, defaultRe, rest, false⟩ :=
  parseParam_plain name rest hn

example : plainName ['i', 'd'] := by unfold plainName; decide

/-- **C10_tail_whole**: a definition that ends in a tail segment (`…{name}*`, no suffix anchor)
always matches to the very end of the path: the reported length is the whole path (the tail
"captures the remaining path portion"). -/
theorem C10_tail_whole (d : DynPat) (pre : List Seg) (n : Name)
    (hd : d.segs = pre ++ [.var n tailRe]) (hs : d.suffix = .open) (isPrefix : Bool) (path : List Char)
    (len : Nat) (h : (ResourceDef.mk isPrefix (.dynamic d) d.segs).findMatch path = some len) :
    len = blen path := by
  simp only [ResourceDef.findMatch] at h
  cases hc : d.captures path with
  | none => rw [hc] at h; cases h
  | some r =>
    obtain ⟨len', caps⟩ := r
    rw [hc] at h
    simp only [Option.map_some, Option.some.injEq] at h
    subst h
    exact captures_tail_whole d pre n hd hs path _ caps hc

/-- **C10_captures_exact** (2): `Path::get` returns exactly the matched substrings (never a
slicing panic), and the static texts concatenated with the values are the matched prefix. -/
theorem C10_captures_exact (d : DynPat) (isPrefix : Bool) (hwf : DynWF d) (path : List Char)
    (hlen : blen path < 65536) (st : PathState)
    (h : (ResourceDef.mk isPrefix (.dynamic d) d.segs).captureMatchInfo (fresh path) = .matched st) :
    ∃ (vals : List (Name × List Char)) (m rest : List Char), path = m ++ rest ∧ blen m = st.skip ∧
      st.values = vals.map (fun v => (v.1, some v.2)) ∧
      buildSegs d.segs (vals.map (·.2)) = (m, true) := by
  obtain ⟨vals, hm, hp, hs⟩ := C10_sound (ResourceDef.mk isPrefix (.dynamic d) d.segs) hwf path hlen st h
  obtain ⟨m, rest, hpath, hl, _, hn⟩ := hm
  refine ⟨vals, m, rest, hpath, hn.symm, ?_, by simpa using buildSegs_lang hl []⟩
  unfold PathState.values
  rw [hp]
  exact spansOk_values hs

/-- **C10_build_concat**: a path built from values that lie in their segments' languages is in
the pattern's language — and therefore matches (`C10_complete`). -/
theorem C10_build_match (d : DynPat) (isPrefix : Bool) (m : List Char) (vals : List (Name × List Char))
    (hl : LangSegs d.segs m vals) :
    (ResourceDef.mk isPrefix (.dynamic d) d.segs).build (vals.map (·.2)) = (m, true) ∧
    (ResourceDef.mk isPrefix (.dynamic d) d.segs).isMatch m = true := by
  refine ⟨by simpa [ResourceDef.build] using buildSegs_lang hl [], ?_⟩
  apply C10_complete _ m (blen m) vals
  refine ⟨m, [], by simp, hl, ?_, rfl⟩
  cases d.suffix <;> simp [SuffixOk]

/-
FULL STATEMENT (false of the code, see `witness_build_ambiguous`):
  theorem C10_build_values (d isPrefix m vals) (hl : LangSegs d.segs m vals) (hwf) (hlen) :
      ∃ st, capture (fresh m) = .matched st ∧ st.values = vals.map (fun v => (v.1, some v.2))
i.e. "a path built from a pattern and values … yields those values back".
-/

/-- **C10_build_values_partial**: building then capturing gives the values back *when the built
path has only one decomposition into the pattern's segments* (extra hypothesis `huniq`).  Without
it, the captured values still re-build the very same path when the pattern is a full
(non-prefix, non-tail) one — second conjunct. -/
theorem C10_build_values_partial (d : DynPat) (isPrefix : Bool) (hwf : DynWF d) (m : List Char)
    (vals : List (Name × List Char)) (hl : LangSegs d.segs m vals) (hlen : blen m < 65536) :
    ∃ st vals', (ResourceDef.mk isPrefix (.dynamic d) d.segs).captureMatchInfo (fresh m) = .matched st ∧
      st.values = vals'.map (fun v => (v.1, some v.2)) ∧
      ((∀ n' v', LangDyn d m n' v' → v' = vals) → vals' = vals) ∧
      (d.suffix = .eos → buildSegs d.segs (vals'.map (·.2)) = (m, true)) := by
  have hmatch := (C10_build_match d isPrefix m vals hl).2
  have h3 := C10_three_agree (ResourceDef.mk isPrefix (.dynamic d) d.segs) m
  cases hf : (ResourceDef.mk isPrefix (.dynamic d) d.segs).findMatch m with
  | none => rw [h3.1, hf] at hmatch; cases hmatch
  | some n =>
    obtain ⟨segs, hcap⟩ := (h3.2.2 hlen).2 n hf
    obtain ⟨vals', hm, hp, hs⟩ := C10_sound (ResourceDef.mk isPrefix (.dynamic d) d.segs) hwf m hlen _ hcap
    refine ⟨_, vals', hcap, ?_, ?_, ?_⟩
    · unfold PathState.values
      exact spansOk_values hs
    · intro huniq
      exact huniq _ vals' hm
    · intro heos
      obtain ⟨m', rest, hpath, hl', hsfx, _⟩ := hm
      rw [heos] at hsfx
      simp only [SuffixOk] at hsfx
      subst hsfx
      simp only [List.append_nil] at hpath
      subst hpath
      simpa using buildSegs_lang hl' []

/-- **C10_build_values_separated**: for the usual slash-separated full patterns (every dynamic
segment excludes `/` and is followed by `/…` or the end — e.g. only default segments between
slashes) the extra hypothesis holds: building a path from values and capturing it again gives
exactly those values back. -/
theorem C10_build_values_separated (d : DynPat) (isPrefix : Bool) (hwf : DynWF d)
    (hsep : Separated d.segs) (heos : d.suffix = .eos) (m : List Char)
    (vals : List (Name × List Char)) (hl : LangSegs d.segs m vals) (hlen : blen m < 65536) :
    ∃ st, (ResourceDef.mk isPrefix (.dynamic d) d.segs).captureMatchInfo (fresh m) = .matched st ∧
      st.values = vals.map (fun v => (v.1, some v.2)) := by
  obtain ⟨st, vals', hcap, hv, huniq, _⟩ := C10_build_values_partial d isPrefix hwf m vals hl hlen
  refine ⟨st, hcap, ?_⟩
  rw [hv, huniq ?_]
  intro n' v' hdyn
  obtain ⟨m', rest, hpath, hl', hsfx, _⟩ := hdyn
  rw [heos] at hsfx
  simp only [SuffixOk] at hsfx
  subst hsfx
  simp only [List.append_nil] at hpath
  subst hpath
  exact langSegs_unique hsep hl' hl

example : Separated [.const ['/', 'u', '/'], .var ['i', 'd'] defaultRe, .const ['/', 'p', '/'],
    .var ['t'] defaultRe] :=
  ⟨fun w h => ((C10_default_segment w).mp h).2, Or.inr ⟨_, _, rfl⟩,
    fun w h => ((C10_default_segment w).mp h).2, Or.inl rfl, trivial⟩

/-- the pattern `/{a}{b}` as `parse` produces it -/
def ambiguousPat : DynPat :=
  ⟨[.const ['/'], .var ['a'] defaultRe, .const [], .var ['b'] defaultRe], .eos⟩

example : parsePattern false (.single ['/', '{', 'a', '}', '{', 'b', '}']) =
    .ok ⟨false, .dynamic ambiguousPat, ambiguousPat.segs⟩ := by rfl

/-- **witness_build_ambiguous**: the full statement fails: `/{a}{b}` built from `("x1","y2")` is
`/x1y2`; both values are non-empty runs without `/`, but the capture returns `("x1y","2")`. -/
theorem witness_build_ambiguous :
    LangSegs ambiguousPat.segs ['/', 'x', '1', 'y', '2'] [(['a'], ['x', '1']), (['b'], ['y', '2'])] ∧
    ∃ st, (ResourceDef.mk false (.dynamic ambiguousPat) ambiguousPat.segs).captureMatchInfo
        (fresh ['/', 'x', '1', 'y', '2']) = .matched st ∧
      st.values = [(['a'], some ['x', '1', 'y']), (['b'], some ['2'])] := by
  refine ⟨?_, _, rfl, by decide⟩
  have h1 : LangRe defaultRe ['x', '1'] := (C10_default_segment _).mpr (by decide)
  have h2 : LangRe defaultRe ['y', '2'] := (C10_default_segment _).mpr (by decide)
  exact .const (cs := ['/']) (.var h1 (.const (cs := []) (.var h2 .nil)))

/-- **witness_static_u16_truncation**: what remains beyond 64 KiB: the static arm is not guarded,
and its `matched_len as u16` cast does truncate — a static pattern of 65 536 bytes on the equal
path is "matched" with `skip = 0` (never reachable through `http::Uri`; the corpus replays it on
the real code with 65 540 bytes ⇒ `skip = 4`). -/
theorem witness_static_u16_truncation :
    (ResourceDef.mk false (.static (List.replicate 65536 'a')) []).captureMatchInfo
        (fresh (List.replicate 65536 'a')) =
      .matched { path := List.replicate 65536 'a', skip := 0, segments := [] } := by
  have key : ∀ (w : List Char) (n : Nat), blen w = n →
      (ResourceDef.mk false (.static w) []).captureMatchInfo (fresh w) =
        .matched { path := w, skip := asU16 n, segments := [] } := by
    intro w n hn
    have hs : staticMatch false w w = some n :=
      (static_iff false _ _ _).mpr ⟨[], (List.append_nil _).symm, hn.symm, by simp⟩
    unfold ResourceDef.captureMatchInfo
    simp only [fresh_unprocessed, hs]
    exact commit_fresh _ n [] (by simp)
  exact key _ 65536 (blen_replicate_a _)

/-- **C10_chain**: a `Path` on which a prefix has already been matched (`skip > 0`, as in scope →
resource routing) behaves exactly like a fresh `Path` holding the unprocessed rest: same verdict,
and the new state is the old one plus the fresh result shifted by `skip` — for every path shorter
than 64 KiB.  So all theorems above transfer to chained matching. -/
theorem C10_chain (rd : ResourceDef) (st : PathState) (hlen : blen st.path < 65536)
    (hskip : st.skip ≤ blen st.path) :
    (rd.captureMatchInfo (fresh st.unprocessed) = .noMatch → rd.captureMatchInfo st = .noMatch) ∧
    (∀ f, rd.captureMatchInfo (fresh st.unprocessed) = .matched f →
      rd.captureMatchInfo st = .matched (shiftState st f) ∧ f.skip ≤ blen st.unprocessed) := by
  have hu := unprocessed_blen st hskip
  have hg1 : st.tooLong = false := tooLong_false hlen
  have hg2 : (fresh st.unprocessed).tooLong = false :=
    tooLong_false (p := fresh st.unprocessed) (by show blen st.unprocessed < 65536; omega)
  unfold ResourceDef.captureMatchInfo
  cases hpt : rd.patType with
  | «static» p =>
    simp only [fresh_unprocessed]
    cases hs : staticMatch rd.isPrefix p st.unprocessed with
    | none => simp
    | some len =>
      obtain ⟨rest, hp, hn, _⟩ := (static_iff _ _ _ _).mp hs
      have hle : len ≤ blen st.unprocessed := by rw [hn]; exact blen_le_of_append hp
      have hnn : asU16 len = len := asU16_of_lt (by omega)
      simp only
      rw [commit_fresh _ len [] (by simp)]
      refine ⟨fun h => (by cases h), ?_⟩
      intro f hf
      injection hf with hf
      subst hf
      exact ⟨commit_shift st _ len [] (by simp) (by omega), by simp only [hnn]; exact hle⟩
  | dynamic d =>
    simp only [hg1, hg2, Bool.false_eq_true, if_false]
    exact captureDyn_shift d st hlen hskip
  | dynamicSet ds =>
    simp only [fresh_unprocessed, hg1, hg2, Bool.false_eq_true, if_false]
    cases hf : firstMatchIdx ds st.unprocessed with
    | none => simp
    | some i =>
      simp only
      cases hget : ds[i]? with
      | none => simp
      | some d => exact captureDyn_shift d st hlen hskip

-- a chained state satisfying the hypotheses of `C10_chain` / `C10_offsets_u16`: `/app` consumed
example : blen (PathState.mk ['/', 'a', 'p', 'p', '/', 'u'] 4 []).path < 65536 ∧
    (PathState.mk ['/', 'a', 'p', 'p', '/', 'u'] 4 []).skip ≤ blen ['/', 'a', 'p', 'p', '/', 'u'] ∧
    (PathState.mk ['/', 'a', 'p', 'p', '/', 'u'] 4 []).unprocessed = ['/', 'u'] := by decide

/-- **C10_offsets_u16**: no `u16` offset is truncated and no `u16` addition overflows, at any
depth of chained matching, (a) for *every* definition on paths up to the 64 KiB URL limit, and
(b) since fix 448eed6 for dynamic patterns and pattern lists on paths of *any* length (they
refuse longer paths): the step never panics, the invariant `skip ≤ len` is preserved, and the
new `skip` is the old one plus the exact (untruncated) length `find_match` reports on the rest.
Only a static pattern on a longer path can still truncate (`witness_static_u16_truncation`). -/
theorem C10_offsets_u16 (rd : ResourceDef) (st : PathState)
    (hlen : blen st.path < 65536 ∨ ∀ p, rd.patType ≠ .static p)
    (hskip : st.skip ≤ blen st.path) :
    rd.captureMatchInfo st ≠ .panic ∧
    ∀ st', rd.captureMatchInfo st = .matched st' →
      st'.path = st.path ∧ st'.skip ≤ blen st'.path ∧
      ∃ n, rd.findMatch st.unprocessed = some n ∧ st'.skip = st.skip + n := by
  by_cases hshort : blen st.path < 65536
  · have hu := unprocessed_blen st hskip
    obtain ⟨hno, hyes⟩ := C10_chain rd st hshort hskip
    obtain ⟨hag, _, h3⟩ := C10_three_agree rd st.unprocessed
    obtain ⟨hnm, hfm⟩ := h3 (by omega)
    cases hf : rd.findMatch st.unprocessed with
    | none =>
      have : rd.isMatch st.unprocessed = false := by rw [hag, hf]; rfl
      have := hno (hnm.mpr this)
      rw [this]
      exact ⟨by simp, by intro st' h; cases h⟩
    | some n =>
      obtain ⟨segs, hcap⟩ := hfm n hf
      obtain ⟨hst, hle⟩ := hyes _ hcap
      rw [hst]
      refine ⟨by simp, ?_⟩
      intro st' h
      injection h with h
      subst h
      simp only at hle
      refine ⟨rfl, ?_, n, rfl, ?_⟩
      · simp only [shiftState]; omega
      · simp only [shiftState]
  · have hdyn : ∀ p, rd.patType ≠ .static p := by
      rcases hlen with h | h
      · exact absurd h hshort
      · exact h
    rw [C10_long_path_refused rd st (by omega) hdyn]
    exact ⟨by simp, by intro st' h; cases h⟩

/-- **C10_chain_never_panics**: any sequence of capture steps on one `Path` (scope prefixes, then
resources, …) runs without a `u16` overflow or truncation provided the path is within the 64 KiB
limit — or, for paths of *any* length, provided no step is a static pattern.  The guard of the
dynamic arms must therefore look at the **full** path: after a prefix has been consumed the
unprocessed rest may be short again while absolute offsets still exceed `u16::MAX` (this is what
the seeded change C10-2 broke; corpus `k 2f+*999:73+2f782f+*64997:74 …`). -/
theorem C10_chain_never_panics (rds : List ResourceDef) (st : PathState)
    (hlen : blen st.path < 65536 ∨ ∀ rd ∈ rds, ∀ p, rd.patType ≠ .static p)
    (hskip : st.skip ≤ blen st.path) :
    ∃ st', stepAll rds st = some st' ∧ st'.path = st.path ∧ st'.skip ≤ blen st'.path := by
  induction rds generalizing st with
  | nil => exact ⟨st, rfl, rfl, hskip⟩
  | cons rd rest ih =>
    have h1 : blen st.path < 65536 ∨ ∀ p, rd.patType ≠ .static p := by
      rcases hlen with h | h
      · exact Or.inl h
      · exact Or.inr (h rd (by simp))
    have hrest : ∀ st2 : PathState, st2.path = st.path →
        (blen st2.path < 65536 ∨ ∀ rd ∈ rest, ∀ p, rd.patType ≠ .static p) := by
      intro st2 hp
      rcases hlen with h | h
      · exact Or.inl (by rw [hp]; exact h)
      · exact Or.inr (fun rd hrd => h rd (List.mem_cons_of_mem _ hrd))
    obtain ⟨hnp, hm⟩ := C10_offsets_u16 rd st h1 hskip
    simp only [stepAll]
    cases hc : rd.captureMatchInfo st with
    | panic => exact absurd hc hnp
    | noMatch => exact ih st (hrest st rfl) hskip
    | matched st2 =>
      obtain ⟨hp, hs, _⟩ := hm st2 hc
      obtain ⟨st', h1', h2', h3'⟩ := ih st2 (hrest st2 hp) hs
      exact ⟨st', h1', by rw [h2', hp], h3'⟩

/-- **C10_parse_wf**: every definition that `ResourceDef::new/prefix` builds (model of `parse` /
`construct`) has pairwise distinct group names — the side condition of `C10_sound`. -/
theorem C10_parse_wf (isPrefix : Bool) (pats : Patterns) (rd : ResourceDef)
    (h : parsePattern isPrefix pats = .ok rd) : DefWF rd := by
  have hall : ∀ (ps : List (List Char)) (ds : List (DynPat × List Seg)),
      parseAll isPrefix ps = .ok ds → ∀ x ∈ ds, DynWF x.1 := by
    intro ps
    induction ps with
    | nil => intro ds h; simp only [parseAll] at h; injection h with h; subst h; simp
    | cons p ps ih =>
      intro ds h
      simp only [parseAll] at h
      split at h
      · cases h
      · rename_i d segs hp
        split at h
        · cases h
        · rename_i rest hr
          injection h with h
          subst h
          intro x hx
          rcases List.mem_cons.mp hx with rfl | hx
          · rcases parse_ok hp with ⟨h1, _⟩ | ⟨d', h1, _, hw, _⟩
            · cases h1
            · injection h1 with h1; subst h1; exact hw
          · exact ih rest hr x hx
      · cases h
  unfold DefWF
  cases pats with
  | single p =>
    simp only [parsePattern] at h
    split at h
    · cases h
    · rename_i pt segs hp
      injection h with h
      subst h
      rcases parse_ok hp with ⟨h1, _⟩ | ⟨d, h1, _, hw, _⟩
      · simp [h1]
      · simp only [h1]; exact hw
  | list ps =>
    cases ps with
    | nil =>
      simp only [parsePattern] at h
      injection h with h
      subst h
      simp
    | cons p ps =>
      simp only [parsePattern] at h
      split at h
      · cases h
      · rename_i ds hd
        injection h with h
        subst h
        simp only
        intro d hd'
        obtain ⟨x, hx, rfl⟩ := List.mem_map.mp hd'
        exact hall _ ds hd x hx

/-- **C10_prefix_boundary**: a single-pattern definition built by `parse` stops only at a segment
boundary: after a successful capture, what is left of the path is empty or starts with `/`
(prefix resources), or is empty (full resources) — unless the pattern has a tail segment, whose
language is "everything". -/
theorem C10_prefix_boundary (isPrefix : Bool) (p : List Char) (rd : ResourceDef)
    (hp : parsePattern isPrefix (.single p) = .ok rd) (path : List Char) (hlen : blen path < 65536)
    (st : PathState) (h : rd.captureMatchInfo (fresh path) = .matched st) :
    ∃ m rest, path = m ++ rest ∧ blen m = st.skip ∧
      ((∃ d, rd.patType = .dynamic d ∧ d.suffix = .open) ∨
        (if isPrefix then (rest = [] ∨ ∃ t, rest = '/' :: t) else rest = [])) := by
  have hwf := C10_parse_wf isPrefix _ rd hp
  obtain ⟨vals, hm, _, _⟩ := C10_sound rd hwf path hlen st h
  simp only [parsePattern] at hp
  split at hp
  · cases hp
  · rename_i pt segs hparse
    injection hp with hp
    subst hp
    unfold Matches at hm
    rcases parse_ok hparse with ⟨h1, _⟩ | ⟨d, h1, _, _, _, hsfx⟩
    · subst h1
      simp only at hm
      obtain ⟨rest, hpath, hn, _, hb⟩ := hm
      exact ⟨p, rest, hpath, hn.symm, Or.inr hb⟩
    · subst h1
      simp only at hm
      obtain ⟨m, rest, hpath, _, hs, hn⟩ := hm
      refine ⟨m, rest, hpath, hn.symm, ?_⟩
      rcases hsfx with ho | hs'
      · exact Or.inl ⟨d, rfl, ho⟩
      · right
        rw [hs'] at hs
        cases isPrefix with
        | true => simpa [SuffixOk] using hs
        | false => simpa [SuffixOk] using hs

end ActixModel.C10
