import ActixModel.Proofs.ReqPool
import ActixModel.Proofs.ReqPoolSim
/-
C11 — requests are isolated: nothing from an earlier request is visible in a later one.

Model: `ActixModel/Model/ReqPool.lean`.  All theorems quantify over every application
configuration `cfg`, every request, every pool capacity and every history; nothing is bounded.
-/
namespace ActixModel.ReqPool.C11
open ActixModel.ReqPool

/-- **C11_reinit_fresh**: `AppInitService::call` on a popped allocation that is clean (what
`HttpRequest::drop` leaves behind) builds exactly the allocation `HttpRequest::new` builds.
Equality of the whole record: headers, URI, match info, extensions, connection data, scoped data
stack, resource path — hence of every observation. -/
theorem C11_reinit_fresh (cfg : Cfg) (i : Inner) (r : Req) (h : Clean cfg i) :
    reinit i r = fresh cfg.root r := reinit_eq_fresh r h

/-- corollary for the observable view (`dump` = everything the dumping handler reads) and for
the whole trip through middleware, router and handler -/
theorem C11_reinit_fresh_view (cfg : Cfg) (i : Inner) (r : Req) (acts : List Act) (h : Clean cfg i) :
    dump cfg (reinit i r) = dump cfg (fresh cfg.root r) ∧
    runHandler cfg (reinit i r) acts = runHandler cfg (fresh cfg.root r) acts := by
  rw [reinit_eq_fresh r h]; exact ⟨rfl, rfl⟩

/-- non-vacuity: a clean allocation may still carry the previous request's head, URL, match
info, resource path and matched flag — `reinit` has to (and does) overwrite all of them -/
example : Clean theCfg
    { head := ⟨"POST", "/s/9/r/8", "10", some 1, [("x-a", "1")]⟩
      path := ⟨"/s/9/r/8", "/s/9/r/8".toList, 8, [("sid", 3, 4), ("rid", 7, 8)]⟩
      resourcePath := [2, 0], matched := true
      appData := [0], connData := none, extensions := [] } := ⟨rfl, rfl, rfl⟩

/-- **C11_recycle_clean**: whatever routing and the handler did to an allocation, the drop
handler's reset leaves it clean — provided the application container is still at the bottom of
the `app_data` stack, which routing preserves (`route_rootFirst`). -/
theorem C11_recycle_clean (cfg : Cfg) (r : Req) (acts : List Act) :
    Clean cfg (recycle (runHandler cfg (fresh cfg.root r) acts).inner) :=
  recycle_clean (runHandler_rootFirst cfg _ acts (fresh_rootFirst cfg r))


/-- **C11_recycle_truncates**: the drop handler's truncation is unconditional — whatever
containers were pushed on top of the application container (by scopes, resources, or by a
middleware calling `ServiceRequest::add_data_container` before routing) and whatever the resource
path, the matched flag and the match info are (in particular for a request that *no* route matched:
`resourcePath = []`), the recycled allocation has `appData = [root]` and is clean. -/
theorem C11_recycle_truncates (cfg : Cfg) (i : Inner) (pushed : List Nat) (rp : List Nat) (m : Bool) :
    (recycle { i with appData := cfg.root :: pushed, resourcePath := rp, matched := m }).appData = [cfg.root] ∧
    Clean cfg (recycle { i with appData := cfg.root :: pushed, resourcePath := rp, matched := m }) := by
  refine ⟨by simp [recycle], recycle_clean ⟨pushed, rfl⟩⟩

/-- the seeded variant C11-3 of `HttpRequest::drop`: truncate only when the request descended
into a scope or resource -/
def recycleIfRouted (i : Inner) : Inner :=
  let i := if i.resourcePath.isEmpty then i else { i with appData := i.appData.take 1 }
  let i := { i with extensions := [] }
  { i with connData := none }

/-- witness: with the conditional truncation a request that no route matched, to which the
app-level middleware attached container 105, goes back to the pool still carrying it — the
allocation is not clean, and `reinit` of it differs from a fresh allocation in what
`app_data::<T>()` resolves to -/
theorem witness_conditional_truncate_leaks :
    let leaked := recycleIfRouted (pushData (fresh 0 ⟨⟨"GET", "/nope", "11", none, [("x-t", "5")]⟩, none, []⟩) (some 105))
    leaked.appData = [0, 105] ∧ ¬ Clean theCfg leaked ∧
    appDataGet theCfg (reinit leaked ⟨⟨"GET", "/", "11", none, []⟩, none, []⟩) 4 = some 5 ∧
    appDataGet theCfg (fresh 0 ⟨⟨"GET", "/", "11", none, []⟩, none, []⟩) 4 = none := by
  refine ⟨by decide, ?_, by decide, by decide⟩
  intro h
  have : ([0, 105] : List Nat) = [0] := h.1
  cases this

/-- the real `recycle` on the same allocation is clean (non-vacuity of `C11_recycle_truncates`
for an un-routed request with a middleware container) -/
example : Clean theCfg (recycle (pushData (fresh 0 ⟨⟨"GET", "/nope", "11", none, [("x-t", "5")]⟩, none, []⟩) (some 105))) :=
  ⟨rfl, rfl, rfl⟩

/-- **C11_reinit_path_any_target**: the routing state of a re-initialised allocation (`Url.uri`,
`Url.path()`, `skip`, `segments`) is that of `Path::new(Url::new(uri))` for the new request's
target — for EVERY target form (origin-form, `*`, authority-form, anything): there is no
hypothesis on the URI, in particular none on a leading `/`, and none on the allocation. -/
theorem C11_reinit_path_any_target (i : Inner) (r : Req) :
    (reinit i r).path = PathSt.new r.head.uri ∧
    (reinit i r).resourcePath = [] ∧ (reinit i r).matched = false := ⟨rfl, rfl, rfl⟩

/-- the seeded variant C11-r2-2 of `AppInitService::call`: the URL of a recycled allocation is
refreshed only when the target's path starts with `/` -/
def reinitIfOrigin (i : Inner) (r : Req) : Inner :=
  let i := if (uriPath r.head.uri).head? == some '/' then { i with path := i.path.update r.head.uri } else i
  let i := { i with path := i.path.reset }
  let i := { i with resourcePath := [] }
  let i := { i with matched := false }
  let i := { i with head := r.head }
  let i := { i with connData := r.connData }
  { i with extensions := r.reqData }

/-- witness: with the conditional refresh, `OPTIONS *` (and `CONNECT h:80`) served from the clean
allocation of an earlier `GET /u/7` keeps routing on `/u/7`, while a fresh allocation has the
real target's path -/
theorem witness_conditional_url_update_leaks :
    let old := recycle (fresh 0 ⟨⟨"GET", "/u/7", "11", none, []⟩, none, []⟩)
    Clean theCfg old ∧
    (reinitIfOrigin old ⟨⟨"OPTIONS", "*", "11", none, []⟩, none, []⟩).path.path = "/u/7".toList ∧
    (fresh 0 ⟨⟨"OPTIONS", "*", "11", none, []⟩, none, []⟩).path.path = ['*'] ∧
    (reinitIfOrigin old ⟨⟨"CONNECT", "h:80", "11", none, []⟩, none, []⟩).path.path = "/u/7".toList ∧
    (fresh 0 ⟨⟨"CONNECT", "h:80", "11", none, []⟩, none, []⟩).path.path = [] := by
  refine ⟨⟨rfl, rfl, rfl⟩, by decide, by decide, by decide, by decide⟩

/-! ## Invariant over all histories -/

/-- **C11_pool_inv**: after ANY history of operations (requests with arbitrary handler effects,
clones stashed/dropped/extended at arbitrary later points, cancelled handlers, more live
requests than the pool holds, the service being dropped) starting from a new service:
every pooled allocation is clean (`app_data = [root]`, no extensions, no connection data), has
no live handle and is pooled once; the pool never exceeds its capacity; every live handle points
to an existing allocation whose scoped-data stack still starts with the application container;
nothing is left allocated that is neither pooled nor referenced. -/
theorem C11_pool_inv (cfg : Cfg) (cap : Nat) (ops : List Op) :
    Inv cfg (runW cfg (World.init cap) ops) :=
  runW_inv ops (init_inv cfg cap)

/-- the part of the invariant named in the design: every pooled allocation is clean -/
theorem C11_pooled_clean (cfg : Cfg) (cap : Nat) (ops : List Op) :
    ∀ id ∈ (runW cfg (World.init cap) ops).pool,
      ∃ i, (runW cfg (World.init cap) ops).heap.get id = some i ∧ Clean cfg i :=
  (C11_pool_inv cfg cap ops).poolClean

/-- **C11_pool_bounded**: the pool never holds more than `cap` allocations, whatever the
number of simultaneously live requests was -/
theorem C11_pool_bounded (cfg : Cfg) (cap : Nat) (ops : List Op) :
    (runW cfg (World.init cap) ops).pool.length ≤ cap := by
  have h := (C11_pool_inv cfg cap ops).poolCap
  rwa [runW_cap] at h

/-! ## History independence -/

/-- **C11_history_independent**: whatever happened before on this service instance, the dumps
produced while serving request `r` (middleware before routing, handler, middleware after — each
one everything observable: head, URI, match info, extensions, connection data, scoped data,
resource name and pattern) are those of the same request served by a brand-new instance. -/
theorem C11_history_independent (cfg : Cfg) (cap : Nat) (ops : List Op) (r : Req) (acts : List Act)
    (halive : (runW cfg (World.init cap) ops).svcAlive = true) :
    (step cfg (runW cfg (World.init cap) ops) (.serve r acts)).2 =
      (step cfg (World.init cap) (.serve r acts)).2 := by
  have h1 := C11_pool_inv cfg cap ops
  have h0 := init_inv cfg cap
  simp only [step, halive, if_true]
  rw [serve_eq r acts h1]
  have : (World.init cap).svcAlive = true := rfl
  simp only [this, if_true]
  rw [serve_eq r acts h0]

/-- the same statement for an arbitrary reachable-or-not world satisfying the invariant, with
the output spelled out: it is a function of the request, the handler's actions and the
configuration alone -/
theorem C11_serve_output (cfg : Cfg) (w : World) (r : Req) (acts : List Act) (h : Inv cfg w) :
    (serve cfg w r acts).2 = Util.joinWith "|" (runHandler cfg (fresh cfg.root r) acts).dumps := by
  rw [serve_eq r acts h]

/-! ## Isolation in the other direction: handles that outlive their handler -/

/-- **C11_clone_stable**: a clone kept alive across later operations keeps seeing exactly its own
request: no later request, drop, clone, or the service shutting down changes the allocation
behind a handle that survives the operation — only an extension insert made through a handle of
the same request does. -/
theorem C11_clone_stable (cfg : Cfg) (cap : Nat) (ops : List Op) (op : Op) (s id : Nat)
    (hs : (s, id) ∈ (runW cfg (World.init cap) ops).slots)
    (hs' : (s, id) ∈ (step cfg (runW cfg (World.init cap) ops) op).1.slots)
    (hw : ¬ op.writesVia (runW cfg (World.init cap) ops) id) :
    (step cfg (runW cfg (World.init cap) ops) op).1.heap.get id =
      (runW cfg (World.init cap) ops).heap.get id :=
  step_frame op (C11_pool_inv cfg cap ops) ⟨_, hs, rfl⟩ ⟨_, hs', rfl⟩ hw

/-- in terms of what is observed: the dump through the surviving handle is unchanged -/
theorem C11_clone_view_stable (cfg : Cfg) (cap : Nat) (ops : List Op) (op : Op) (s id : Nat)
    (hs : (runW cfg (World.init cap) ops).slots.lookup s = some id)
    (hs' : (step cfg (runW cfg (World.init cap) ops) op).1.slots.lookup s = some id)
    (hw : ¬ op.writesVia (runW cfg (World.init cap) ops) id) :
    (step cfg (step cfg (runW cfg (World.init cap) ops) op).1 (.view s)).2 =
      (step cfg (runW cfg (World.init cap) ops) (.view s)).2 := by
  have hg := C11_clone_stable cfg cap ops op s id (lookup_mem _ _ _ hs) (lookup_mem _ _ _ hs') hw
  generalize (step cfg (runW cfg (World.init cap) ops) op).1 = w' at hs' hg ⊢
  generalize runW cfg (World.init cap) ops = w at hs hg ⊢
  simp only [step, hs, hs', hg]
  cases w.heap.get id <;> rfl

/-! ## Release: nothing of a finished request stays behind -/

/-- **C11_no_leak**: an allocation without a live handle (i.e. a pooled one; nothing else exists)
holds no request extensions and no connection data — the values of a finished request are
dropped with its last handle, not when the allocation is reused. -/
theorem C11_no_leak (cfg : Cfg) (cap : Nat) (ops : List Op) (id : Nat) (i : Inner)
    (hg : (runW cfg (World.init cap) ops).heap.get id = some i)
    (hn : ¬ Bound (runW cfg (World.init cap) ops).slots id) :
    i.extensions = [] ∧ i.connData = none := by
  have h := C11_pool_inv cfg cap ops
  rcases h.noGarbage id i hg with hx | hp | hb
  · cases hx
  · obtain ⟨i', hg', hc⟩ := h.poolClean id hp
    rw [hg] at hg'; cases hg'
    exact ⟨hc.2.1, hc.2.2⟩
  · exact absurd hb hn


/-- **C11_shutdown_releases**: once the service has been dropped and the last outstanding
handle is gone, no allocation is left (so the application data, the pool and the connection data
they reference are released; a pooled allocation that survived would keep the pool alive through
its own `app_state` reference) -/
theorem C11_shutdown_releases (cfg : Cfg) (cap : Nat) (ops : List Op)
    (hdead : (runW cfg (World.init cap) ops).svcAlive = false)
    (hnone : (runW cfg (World.init cap) ops).slots = []) :
    (runW cfg (World.init cap) ops).heap = [] ∧ aliveApp (runW cfg (World.init cap) ops) = 0 := by
  have h := C11_pool_inv cfg cap ops
  have hen := runW_dead_disabled cfg ops (World.init cap) (by intro h; cases h) hdead
  have hheap := heap_empty_of_unreferenced h hnone (h.disabled hen)
  exact ⟨hheap, by simp [aliveApp, hdead, hheap]⟩

/-! ## The request head's own pool (actix-http) -/

/-- **C11_head_pool_fresh**: whatever heads the thread-local pool holds, and whichever fields the
builder of the request leaves untouched, the head of a new `Request` is the one built from
`RequestHead::default()` (holds for the code after the `fix:` commit to `RequestHead::clear`). -/
theorem C11_head_pool_fresh (pool : List Head) (s : HeadSpec) :
    buildHead (headGet headClear pool).1 s = buildHead Head.default s := by
  cases pool with
  | nil => rfl
  | cons h t => cases h; rfl

/- Full statement for the code BEFORE the fix (`RequestHead::clear` resetting only flags and
headers) is false:
   C11_head_pool_fresh_old (pool) (s) :
     buildHead (headGet headClearOld pool).1 s = buildHead Head.default s
It holds only for builders that overwrite every scalar field: -/
theorem C11_head_pool_old_full_builders (pool : List Head) (s : HeadSpec)
    (hm : s.method.isSome) (hu : s.uri.isSome) (hv : s.version.isSome) (hp : s.peer.isSome) :
    buildHead (headGet headClearOld pool).1 s = buildHead Head.default s := by
  obtain ⟨m, u, v, p, hs⟩ := s
  cases m <;> cases u <;> cases v <;> cases p <;> simp_all
  cases pool with
  | nil => rfl
  | cons h t => cases h; rfl

/-- hypotheses of the partial statement are satisfiable: the h1 decoder + dispatcher write all -/
example : (HeadSpec.mk (some "GET") (some "/x") (some "11") (some none) []).method.isSome := rfl

/-- witness (defect F15, fixed): `actix_http::test::TestRequest::finish` sets method, uri, version
and headers but not the peer address; with the old `clear`, a head recycled from a request that
came from `127.0.0.1:1001` makes the new request appear to come from there -/
theorem witness_stale_peer_before_fix :
    (buildHead (headGet headClearOld [⟨"GET", "/u/1", "11", some 1001, []⟩]).1
        ⟨some "GET", some "/u/3", some "11", none, []⟩).peer = some 1001 ∧
    (buildHead Head.default ⟨some "GET", some "/u/3", some "11", none, []⟩).peer = none := by
  decide

/-! ## Refinement: recycling is unobservable -/

/-- **C11_pool_transparent**: for every history, the outputs of *all* operations (every dump of
every request, every dump through a stashed clone, every `ok`/`-`) are the same whatever the pool
capacity — in particular the same as with capacity 0, i.e. a service that never recycles an
allocation and builds every request with `HttpRequest::new`.  Proof: simulation up to a renaming
of allocation ids (`Proofs/ReqPoolSim.lean`). -/
theorem C11_pool_transparent (cfg : Cfg) (cap cap' : Nat) (ops : List Op) :
    (run cfg (World.init cap) ops).2 = (run cfg (World.init cap') ops).2 :=
  run_rel ops (init_inv cfg cap) (init_inv cfg cap') (init_rel cap cap')

/-- the reference implementation really never recycles: with capacity 0 the pool stays empty -/
theorem C11_no_pool_reference (cfg : Cfg) (ops : List Op) :
    (runW cfg (World.init 0) ops).pool = [] := by
  have := C11_pool_bounded cfg 0 ops
  exact List.length_eq_zero_iff.mp (Nat.le_zero.mp this)

/-! ## Non-vacuity: concrete histories that satisfy the hypotheses above (kernel-evaluated) -/

private def rq (uri : String) : Req := ⟨⟨"GET", uri, "11", none, []⟩, none, []⟩

/-- a history in which request 0 stashes a clone (slot 1) and inserts an extension, and request 1
completes: its allocation (id 1) is pooled, request 0's (id 0) is still referenced -/
private def exHist : List Op := [.serve (rq "/u/1") [.stash 1, .ext 1 5], .serve (rq "/s/2/r/3") []]

example : (runW theCfg (World.init 2) exHist).svcAlive = true := by decide
example : (runW theCfg (World.init 2) exHist).pool = [1] := by decide
/-- hypotheses of `C11_clone_stable`: the clone survives a further request that reuses the pool -/
example : (1, 0) ∈ (runW theCfg (World.init 2) exHist).slots ∧
    (1, 0) ∈ (step theCfg (runW theCfg (World.init 2) exHist) (.serve (rq "/t/9") [.ext 1 7])).1.slots ∧
    ¬ (Op.serve (rq "/t/9") [.ext 1 7]).writesVia (runW theCfg (World.init 2) exHist) 0 := by
  refine ⟨by decide, by decide, fun h => h⟩
/-- pool overflow: three requests alive at once with capacity 1; after all are dropped one
allocation is pooled, the other two are freed -/
example : (runW theCfg (World.init 1)
    [.serve (rq "/") [.stash 1], .serve (rq "/") [.stash 2], .serve (rq "/") [.stash 3],
     .drop 1, .drop 2, .drop 3]).pool = [0] := by decide
example : ((runW theCfg (World.init 1)
    [.serve (rq "/") [.stash 1], .serve (rq "/") [.stash 2], .serve (rq "/") [.stash 3],
     .drop 1, .drop 2, .drop 3]).heap.map (·.1)) = [0] := by decide
/-- hypotheses of `C11_shutdown_releases`: service dropped while a clone is alive, clone dropped later -/
example : (runW theCfg (World.init 2) [.serve (rq "/u/1") [.stash 1], .serve (rq "/") [], .disable, .drop 1]).svcAlive = false ∧
    (runW theCfg (World.init 2) [.serve (rq "/u/1") [.stash 1], .serve (rq "/") [], .disable, .drop 1]).slots = [] := by
  decide

end ActixModel.ReqPool.C11
