import ActixModel.Proofs.ReqPool
/-
C11 — requests are isolated: nothing from an earlier request is visible in a later one.

Model: `ActixModel/Model/ReqPool.lean`.  All theorems quantify over every application
configuration `cfg`, every request, every pool capacity and every history; nothing is bounded.
-/
namespace ActixModel.ReqPool.C11
open ActixModel.ReqPool

/-- **C11_reinit_fresh**: `AppInitService::call` on a popped allocation that is clean (what
`HttpRequest::drop` leaves behind) builds exactly the allocation `HttpRequest::new` builds.
Equality of the whole record: headers, URI, match info, extensions, connection data, scoped data
stack, resource path — hence of every observation. -/
theorem C11_reinit_fresh (cfg : Cfg) (i : Inner) (r : Req) (h : Clean cfg i) :
    reinit i r = fresh cfg.root r := reinit_eq_fresh r h

/-- corollary for the observable view (`dump` = everything the dumping handler reads) and for
the whole trip through middleware, router and handler -/
theorem C11_reinit_fresh_view (cfg : Cfg) (i : Inner) (r : Req) (acts : List Act) (h : Clean cfg i) :
    dump cfg (reinit i r) = dump cfg (fresh cfg.root r) ∧
    runHandler cfg (reinit i r) acts = runHandler cfg (fresh cfg.root r) acts := by
  rw [reinit_eq_fresh r h]; exact ⟨rfl, rfl⟩

/-- non-vacuity: a clean allocation may still carry the previous request's head, URL, match
info, resource path and matched flag — `reinit` has to (and does) overwrite all of them -/
example : Clean theCfg
    { head := ⟨"POST", "/s/9/r/8", "10", some 1, [("x-a", "1")]⟩
      path := ⟨"/s/9/r/8", "/s/9/r/8".toList, 8, [("sid", 3, 4), ("rid", 7, 8)]⟩
      resourcePath := [2, 0], matched := true
      appData := [0], connData := none, extensions := [] } := ⟨rfl, rfl, rfl⟩

/-- **C11_recycle_clean**: whatever routing and the handler did to an allocation, the drop
handler's reset leaves it clean — provided the application container is still at the bottom of
the `app_data` stack, which routing preserves (`route_rootFirst`). -/
theorem C11_recycle_clean (cfg : Cfg) (r : Req) (acts : List Act) :
    Clean cfg (recycle (runHandler cfg (fresh cfg.root r) acts).inner) :=
  recycle_clean (runHandler_rootFirst cfg _ acts (fresh_rootFirst cfg r))

end ActixModel.ReqPool.C11
