import ActixModel.Proofs.Collect
/-
C12 — body extractors never accept or buffer more than their configured limit.

Model: `ActixModel/Model/Collect.lean` (the common collect loop of `HttpMessageBody`, `JsonBody`,
`UrlEncoded`, `to_bytes_limited`; their declared-length preludes; `encoding::Decoder` over an
abstract codec; multipart `Limits`).  All theorems quantify over every limit, every item list
(= every chunking and every position of a stream error; Pendings are stutter steps and not
items) and every declared length; nothing is bounded.
-/
namespace ActixModel.Collect.C12
open ActixModel.Util ActixModel.Collect

/-! ## 1. the limit decides, and nothing else -/

/-- **C12_iff**: no declared length, error-free stream: the loop succeeds iff the body is within
the limit, and then returns exactly the body. -/
theorem C12_iff (limit : Nat) (cs : List Bytes) (b : Bytes) :
    collect limit (chunks cs) = .ok b ↔ cs.flatten.length ≤ limit ∧ b = cs.flatten := by
  rcases collect_chunks_cases limit cs with ⟨hl, hc⟩ | ⟨hl, k, _, hc⟩
  · rw [hc]
    constructor
    · intro h; injection h with h; exact ⟨hl, h.symm⟩
    · rintro ⟨_, h⟩; rw [h]
  · rw [hc]
    constructor
    · intro h; cases h
    · rintro ⟨h, _⟩; omega

/-- **C12_overflow_iff**: … and otherwise it fails with the overflow error (whose reported size
is above the limit), never with anything else. -/
theorem C12_overflow_iff (limit : Nat) (cs : List Bytes) :
    (∃ k, collect limit (chunks cs) = .overflow k ∧ k > limit) ↔ cs.flatten.length > limit := by
  rcases collect_chunks_cases limit cs with ⟨hl, hc⟩ | ⟨hl, k, hk, hc⟩
  · rw [hc]
    constructor
    · rintro ⟨k, h, _⟩; cases h
    · intro h; omega
  · rw [hc]
    exact ⟨fun _ => hl, fun _ => ⟨k, rfl, hk⟩⟩

example : collect 3 (chunks [[1, 2], [3]]) = .ok [1, 2, 3] := by decide
example : collect 3 (chunks [[1, 2], [], [3, 4]]) = .overflow 4 := by decide

/-- **C12_spec**: with stream errors: the outcome class is a function of (bytes delivered before
the first error, is there an error) only. -/
theorem C12_spec (limit : Nat) (items : List Item) :
    ofOutcome (collect limit items) = spec limit (bytesBeforeErr items) (hasErr items) :=
  collect_spec limit items

/-- **C12_chunking_independent**: two streams delivering the same bytes (before the first error,
if any) get the same result, however the bytes are cut into chunks, empty chunks included. -/
theorem C12_chunking_independent (limit : Nat) (items items' : List Item)
    (hb : bytesBeforeErr items = bytesBeforeErr items') (he : hasErr items = hasErr items') :
    ofOutcome (collect limit items) = ofOutcome (collect limit items') := by
  rw [collect_spec, collect_spec, hb, he]

/-- the same for error-free chunk lists, as in the property text -/
theorem C12_chunking_independent_chunks (limit : Nat) (cs cs' : List Bytes)
    (h : cs.flatten = cs'.flatten) :
    ofOutcome (collect limit (chunks cs)) = ofOutcome (collect limit (chunks cs')) :=
  C12_chunking_independent limit _ _ (by simp [bytesBeforeErr_chunks, h]) (by simp [hasErr_chunks])

example : bytesBeforeErr (chunks [[1], [2, 3]]) = bytesBeforeErr (chunks [[1, 2], [], [3]]) := by decide

/-! ## 2. never hold more than the limit plus one incoming chunk -/

/-- **C12_buffer_bound**: at every step of every run (every prefix of every item list) the
buffer is within the limit … -/
theorem C12_buffer_bound (limit : Nat) (pre suf : List Item) :
    Inv limit (runFrom limit (.run []) pre) ∧
    Inv limit (runFrom limit (.run []) (pre ++ suf)) :=
  ⟨inv_runFrom limit pre _ (by simp [Inv]), inv_runFrom limit _ _ (by simp [Inv])⟩

/-- … hence **C12_held_bound**: while handling the next item the extractor holds at most
`limit` + that one incoming chunk. -/
theorem C12_held_bound (limit : Nat) (pre : List Item) (it : Item) :
    held (runFrom limit (.run []) pre) it ≤ limit + itemLen it :=
  held_le limit _ it (inv_runFrom limit pre _ (by simp [Inv]))

example : held (runFrom 4 (.run []) (chunks [[1, 2], [3]])) (.chunk [4, 5, 6]) = 6 := by decide

/-- **C12_stops_pulling**: the stream is not polled again after the overflow / error: the bytes
of all pulled items but the last fit in the limit, and end-of-stream is observed only by runs
that end with a buffer (i.e. succeed). -/
theorem C12_stops_pulling (limit : Nat) (items : List Item) :
    itemsBytes (items.take ((pulled limit items).1 - 1)) ≤ limit ∧
    (pulled limit items).1 ≤ items.length ∧
    ((pulled limit items).2 = true ↔ ∃ b, collect limit items = .ok b) := by
  refine ⟨?_, pulledFrom_le limit items _, ?_⟩
  · have := pulledFrom_prefix_fits limit items [] (by simp)
    simpa [pulled] using this
  · unfold pulled collect
    rw [pulledFrom_eof]
    constructor
    · rintro ⟨buf, h⟩; exact ⟨buf, by simp [h, finish]⟩
    · rintro ⟨b, h⟩
      cases hr : runFrom limit (.run []) items with
      | run buf => exact ⟨buf, rfl⟩
      | fin o =>
        rw [hr] at h
        simp only [finish] at h
        -- a finished state is never `ok`
        exfalso
        have : ∀ (its : List Item) (s : St), (∀ b, s ≠ .fin (.ok b)) →
            ∀ b, runFrom limit s its ≠ .fin (.ok b) := by
          intro its
          induction its with
          | nil => intro s hs b; simpa using hs b
          | cons it rest ih =>
            intro s hs b
            simp only [runFrom_cons]
            apply ih
            intro b'
            cases s with
            | fin o' => simpa [step] using hs b'
            | run buf =>
              cases it with
              | err => simp [step]
              | chunk c => simp only [step]; split <;> simp
        exact this items (.run []) (by simp) b (by rw [hr, h])

example : pulled 3 (chunks [[1, 2], [3, 4], [5]]) = (2, false) := by decide
example : pulled 3 (chunks [[1, 2], [3]]) = (2, true) := by decide

/-- **C12_pulled_shortest**: on an error-free stream that overflows, the pulled items together
exceed the limit — with `C12_stops_pulling` the extractor pulls exactly the shortest prefix of the
stream that is over the limit, never more. -/
theorem C12_pulled_shortest (limit : Nat) (cs : List Bytes) (k : Nat)
    (h : collect limit (chunks cs) = .overflow k) :
    itemsBytes ((chunks cs).take (pulled limit (chunks cs)).1) > limit := by
  have := pulledFrom_overflow_exceeds limit (chunks cs) [] k (by simpa [collect] using h)
  simpa [pulled] using this

/-- **C12_schedule_independent**: any interleaving of `Pending`s into the stream's answers leaves
every state of the loop, hence the result, unchanged (all schedules, not a sample). -/
theorem C12_schedule_independent (limit : Nat) (ps : List PollEv) :
    finish (ps.foldl (stepPoll limit) (.run [])) = collect limit (readyItems ps) := by
  rw [stepPoll_fold]; rfl

example : readyItems [.pending, .ready (.chunk [1]), .pending, .pending, .ready (.chunk [2])] =
    chunks [[1], [2]] := by decide

/-! ## 3. declared Content-Length -/

/-- **C12_declared**: a declared length above the limit is refused on the header alone (nothing
is read: the result does not depend on the stream), for each of the three header-reading
extractors. -/
theorem C12_declared (dflt limit l : Nat) (items : List Item) (h : l > limit) :
    httpMessageBody dflt limit (.len l) items = .overflowKnown l ∧
    jsonBody limit (.len l) items = .overflowKnown l ∧
    urlEncoded limit (.len l) items = .overflowKnown l := by
  simp [httpMessageBody, hmbErrLimit, jsonBody, urlEncoded, h]

/-- **C12_declared_lying**: a declared length within the limit — true or lying, and even above
`HttpMessageBody`'s built-in default, which `.limit()` overrides — changes nothing: the loop
re-checks every chunk. -/
theorem C12_declared_lying (dflt limit l : Nat) (items : List Item) (h : l ≤ limit) :
    httpMessageBody dflt limit (.len l) items = ofOutcome (collect limit items) ∧
    jsonBody limit (.len l) items = ofOutcome (collect limit items) ∧
    urlEncoded limit (.len l) items = ofOutcome (collect limit items) := by
  have h' : ¬ l > limit := by omega
  simp [httpMessageBody, hmbErrLimit, jsonBody, urlEncoded, h']

/-- **C12_absent**: without the header all three are the bare loop. -/
theorem C12_absent (dflt limit : Nat) (items : List Item) :
    httpMessageBody dflt limit .absent items = ofOutcome (collect limit items) ∧
    jsonBody limit .absent items = ofOutcome (collect limit items) ∧
    urlEncoded limit .absent items = ofOutcome (collect limit items) := by
  simp [httpMessageBody, hmbErrLimit, hmbErrNew, jsonBody, urlEncoded]

/-- **C12_success_within_limit**: whatever is declared, whatever the stream does: every one of
the five collectors returns a body only if that body is within the limit and is exactly what
the stream delivered. -/
theorem C12_success_within_limit (dflt limit : Nat) (d : Decl) (sz : BodySize) (items : List Item)
    (b : Bytes) :
    (httpMessageBody dflt limit d items = .body b → b.length ≤ limit ∧ b = bytesBeforeErr items ∧ hasErr items = false) ∧
    (jsonBody limit d items = .body b → b.length ≤ limit ∧ b = bytesBeforeErr items ∧ hasErr items = false) ∧
    (urlEncoded limit d items = .body b → b.length ≤ limit ∧ b = bytesBeforeErr items ∧ hasErr items = false) ∧
    (toBytesLimited limit sz items = .body b → b.length ≤ limit ∧
      (b = bytesBeforeErr items ∧ hasErr items = false ∨ b = [] ∧ (sz = .none ∨ sz = .sized 0))) := by
  have key : ofOutcome (collect limit items) = .body b →
      b.length ≤ limit ∧ b = bytesBeforeErr items ∧ hasErr items = false := by
    rw [collect_spec]; unfold spec
    by_cases hl : (bytesBeforeErr items).length ≤ limit
    · rw [if_pos hl]
      cases he : hasErr items
      · simp only [Bool.false_eq_true, if_false]
        intro h; injection h with h; subst h; exact ⟨hl, rfl, trivial⟩
      · simp
    · rw [if_neg hl]; intro h; cases h
  have key2 : ∀ o, collect limit items = o →
      (match o with | .ok b' => Res.body b' | .overflow _ => Res.exceeded | .streamErr => Res.streamErr) = Res.body b →
      b.length ≤ limit ∧ b = bytesBeforeErr items ∧ hasErr items = false := by
    intro o ho h
    cases o with
    | ok b' => simp at h; subst h; exact key (by rw [ho]; rfl)
    | overflow k => simp at h
    | streamErr => simp at h
  refine ⟨?_, ?_, ?_, ?_⟩
  · unfold httpMessageBody
    cases d with
    | absent => simpa [hmbErrLimit, hmbErrNew] using key
    | bad => simp [hmbErrLimit, hmbErrNew]
    | len l =>
      by_cases h : l > limit
      · simp [hmbErrLimit, h]
      · simpa [hmbErrLimit, h] using key
  · unfold jsonBody
    cases d with
    | absent => simpa using key
    | bad => simpa using key
    | len l => by_cases h : l > limit <;> simp [h]; exact key
  · unfold urlEncoded
    cases d with
    | absent => simpa using key
    | bad => simp
    | len l => by_cases h : l > limit <;> simp [h]; exact key
  · unfold toBytesLimited
    cases sz with
    | none => simp; intro h; subst h; simp
    | stream =>
      simp only
      intro h
      have := key2 _ rfl h
      exact ⟨this.1, Or.inl this.2⟩
    | sized n =>
      simp only
      by_cases h0 : n = 0
      · simp [h0]; intro h; subst h; simp
      · by_cases h1 : n > limit
        · simp [h0, h1]
        · simp only [h0, h1, if_false]
          intro h
          have := key2 _ rfl h
          exact ⟨this.1, Or.inl this.2⟩

example : httpMessageBody 262144 5 (.len 3) (chunks [[1, 2, 3, 4]]) = .body [1, 2, 3, 4] := by decide
example : httpMessageBody 262144 5 (.len 9) (chunks [[1]]) = .overflowKnown 9 := by decide

/-! ## 4. content decoding -/

/-- **C12_decoded**: behind a lawful decompressor the result is decided by the *decoded* length,
for every segmentation of the wire image. -/
theorem C12_decoded {σ : Type} (c : Codec σ) (s0 : σ) (D : Bytes → Bytes) (hl : Lawful c s0 D)
    (limit : Nat) (cs : List Bytes) :
    ofOutcome (collect limit (decodeItems c s0 (chunks cs))) = spec limit (D cs.flatten) false := by
  rw [collect_spec, (hl cs).1, (hl cs).2]

/-- **C12_decoded_chunking_independent** -/
theorem C12_decoded_chunking_independent {σ : Type} (c : Codec σ) (s0 : σ) (D : Bytes → Bytes)
    (hl : Lawful c s0 D) (limit : Nat) (cs cs' : List Bytes) (h : cs.flatten = cs'.flatten) :
    ofOutcome (collect limit (decodeItems c s0 (chunks cs))) =
      ofOutcome (collect limit (decodeItems c s0 (chunks cs'))) := by
  rw [C12_decoded c s0 D hl, C12_decoded c s0 D hl, h]

def expandD (k : Nat) (bs : Bytes) : Bytes := bs.flatMap (fun x => List.replicate k x)

theorem expandD_append (k : Nat) (a b : Bytes) : expandD k (a ++ b) = expandD k a ++ expandD k b := by
  simp [expandD, List.flatMap_append]

/-- **C12_end_to_end_chunking_independent**: the three header-reading extractors behind a lawful
decoder: for a fixed declared length the complete result (body or error) is the same for every
segmentation of the wire image. -/
theorem C12_end_to_end_chunking_independent {σ : Type} (c : Codec σ) (s0 : σ) (D : Bytes → Bytes)
    (hl : Lawful c s0 D) (dflt limit : Nat) (d : Decl) (cs cs' : List Bytes)
    (h : cs.flatten = cs'.flatten) :
    httpMessageBody dflt limit d (decodeItems c s0 (chunks cs)) =
      httpMessageBody dflt limit d (decodeItems c s0 (chunks cs')) ∧
    jsonBody limit d (decodeItems c s0 (chunks cs)) = jsonBody limit d (decodeItems c s0 (chunks cs')) ∧
    urlEncoded limit d (decodeItems c s0 (chunks cs)) = urlEncoded limit d (decodeItems c s0 (chunks cs')) := by
  have e := C12_decoded_chunking_independent c s0 D hl limit cs cs' h
  simp only [httpMessageBody, jsonBody, urlEncoded, e, and_self]

/-- a concrete stateless codec satisfying the law (each wire byte decodes to `k` copies), so that
the hypothesis `Lawful` is not vacuous -/
def expandCodec (k : Nat) : Codec Unit where
  feed _ b := some ((), expandD k b)
  eof _ := some []

theorem expand_lawful (k : Nat) : Lawful (expandCodec k) () (expandD k) := by
  intro cs
  induction cs with
  | nil => simp [chunks, decodeItems, expandCodec, hasErr, bytesBeforeErr, expandD]
  | cons c rest ih =>
    simp only [chunks, List.map_cons, decodeItems, expandCodec, List.flatten_cons, expandD_append] at *
    split
    · rename_i hemp
      have : expandD k c = [] := by simpa using hemp
      rw [this]; simpa using ih
    · simp only [hasErr, bytesBeforeErr]
      exact ⟨ih.1, by rw [ih.2]⟩

/-- a second lawful codec at the other extreme: it holds everything back and releases the whole
decoded image at end of stream (`feed_eof`) -/
def holdCodec (k : Nat) : Codec Bytes where
  feed s b := some (s ++ b, [])
  eof s := some (expandD k s)

theorem hold_aux (k : Nat) (cs : List Bytes) : ∀ s : Bytes,
    hasErr (decodeItems (holdCodec k) s (chunks cs)) = false ∧
    bytesBeforeErr (decodeItems (holdCodec k) s (chunks cs)) = expandD k (s ++ cs.flatten) := by
  induction cs with
  | nil =>
    intro s
    simp only [chunks, List.map_nil, decodeItems, holdCodec, List.flatten_nil, List.append_nil]
    split
    · rename_i hemp
      have : expandD k s = [] := by simpa using hemp
      simp [hasErr, bytesBeforeErr, this]
    · simp [hasErr, bytesBeforeErr]
  | cons c rest ih =>
    intro s
    simp only [chunks, List.map_cons, decodeItems, holdCodec, List.flatten_cons] at *
    simpa [List.append_assoc] using ih (s ++ c)

theorem hold_lawful (k : Nat) : Lawful (holdCodec k) [] (expandD k) := by
  intro cs; simpa using hold_aux k cs []

example : decodeItems (expandCodec 2) () (chunks [[1, 2], [], [3]]) =
    [.chunk [1, 1, 2, 2], .chunk [3, 3]] := by decide
example : decodeItems (holdCodec 2) [] (chunks [[1, 2], [], [3]]) = [.chunk [1, 1, 2, 2, 3, 3]] := by decide

/-
Full statement (property text read with "incoming chunk" = the chunk received from the
connection):

  theorem C12_held_bound_wire : held (state after decoded prefix) (decoded item)
        ≤ limit + (length of the wire chunk that produced it)

is FALSE behind a decoder: the decoder hands the extractor the whole decoded image of one wire
chunk before the limit is tested (DESIGN §6 O6).  What holds is `C12_held_bound` over the decoded
items (the chunk the extractor is handed), and the wire-level bound without a decoder:
-/

/-- **C12_held_bound_wire_partial**: identity coding (`decoder = None`): decoded item = wire item. -/
theorem C12_held_bound_wire_partial (limit : Nat) (pre : List Item) (it : Item) :
    held (runFrom limit (.run []) (passThrough pre)) it ≤ limit + itemLen it :=
  C12_held_bound limit pre it

/-- **witness_O6**: a 1-byte wire chunk through a ×8 decoder: with limit 2 the extractor is
handed 8 bytes (> limit + the 1 wire byte received) before it can refuse. -/
theorem witness_O6 :
    decodeItems (expandCodec 8) () (chunks [[7]]) = [.chunk [7, 7, 7, 7, 7, 7, 7, 7]] ∧
    held (.run []) (.chunk [7, 7, 7, 7, 7, 7, 7, 7]) = 8 ∧ ¬ (8 ≤ 2 + itemLen (.chunk [7])) ∧
    collect 2 (decodeItems (expandCodec 8) () (chunks [[7]])) = .overflow 8 := by decide

/-! ## 5. multipart budgets -/

/-- **C12_mp_consume_iff**: a chunk is accepted iff all applicable budgets (total; memory if the
reader keeps it in memory; the per-name budget if the field has one) can pay for it, and then
each is charged exactly the chunk length. -/
theorem C12_mp_consume_iff (l : Limits) (bytes : Nat) (m : Bool) :
    ((tryConsume l bytes m).2 = true ↔ Fits l bytes m) ∧
    ((tryConsume l bytes m).2 = true → (tryConsume l bytes m).1 = charge l bytes m) :=
  tryConsume_spec l bytes m

/-- **C12_mp_no_underflow**: remaining budgets never grow and never wrap, on the accepting and on
the rejecting path: `remaining' ≤ remaining`, and on acceptance `remaining' + bytes = remaining`
for every budget that applies. -/
theorem C12_mp_no_underflow (l : Limits) (bytes : Nat) (m : Bool) :
    (tryConsume l bytes m).1.total ≤ l.total ∧ (tryConsume l bytes m).1.memory ≤ l.memory ∧
    (∀ f', (tryConsume l bytes m).1.field = some f' → ∃ f, l.field = some f ∧ f' ≤ f) ∧
    ((tryConsume l bytes m).2 = true →
      (tryConsume l bytes m).1.total + bytes = l.total ∧
      (m = true → (tryConsume l bytes m).1.memory + bytes = l.memory) ∧
      (∀ f, l.field = some f → ∃ f', (tryConsume l bytes m).1.field = some f' ∧ f' + bytes = f)) := by
  refine ⟨(tryConsume_mono l bytes m).1, (tryConsume_mono l bytes m).2.1, (tryConsume_mono l bytes m).2.2, ?_⟩
  intro h
  have hf := (tryConsume_ok_iff l bytes m).mp h
  rw [tryConsume_ok_eq l bytes m h]
  obtain ⟨t, mem, f⟩ := l
  cases m <;> cases f <;> simp [charge, Fits] at * <;> omega

/-- **C12_mp_ops_monotone**: over every sequence of `try_consume_limits` calls — also one that
carries on after a refusal, where an earlier budget stays charged — no remaining budget ever
grows (so none can have wrapped below zero). -/
theorem C12_mp_ops_monotone (l : Limits) (ops : List (Nat × Bool)) :
    (runOps l ops).total ≤ l.total ∧ (runOps l ops).memory ≤ l.memory ∧
    (∀ f', (runOps l ops).field = some f' → ∃ f, l.field = some f ∧ f' ≤ f) :=
  runOps_mono ops l

example : runOps { total := 10, memory := 3, field := some 9 } [(4, true), (2, false)] =
    { total := 4, memory := 3, field := some 7 } := by decide

/-- **C12_mp_field_iff**: a field is read to the end iff the *sum* of its chunk lengths fits all
applicable budgets; then the budgets are charged that sum. -/
theorem C12_mp_field_iff (m : Bool) (l : Limits) (ns : List Nat) :
    ((readField m l ns).2 = true ↔ Fits l ns.sum m) ∧
    ((readField m l ns).2 = true → (readField m l ns).1 = charge l ns.sum m) :=
  readField_spec m ns l

/-- **C12_mp_field_chunking_independent** -/
theorem C12_mp_field_chunking_independent (m : Bool) (l : Limits) (ns ns' : List Nat)
    (h : ns.sum = ns'.sum) :
    (readField m l ns).2 = (readField m l ns').2 ∧
    ((readField m l ns).2 = true → (readField m l ns).1 = (readField m l ns').1) := by
  have a := readField_spec m ns l
  have b := readField_spec m ns' l
  rw [h] at a
  have e : (readField m l ns).2 = (readField m l ns').2 := by
    cases h1 : (readField m l ns).2 <;> cases h2 : (readField m l ns').2 <;> simp_all
  refine ⟨e, fun h1 => ?_⟩
  rw [a.2 h1, b.2 (e ▸ h1)]

example : readField true { total := 10, memory := 5, field := some 4 } [2, 2] =
    ({ total := 6, memory := 1, field := some 0 }, true) := by decide
example : (readField true { total := 10, memory := 5, field := some 4 } [2, 3]).2 = false := by decide

/-- **C12_mp_form_iff**: the whole `MultipartForm` extraction (no denied duplicate) succeeds iff
the sum of *all* field bytes is within the total budget, the sum of the bytes of the fields read
into memory is within the memory budget, and for every name with a declared per-field limit the
sum over *all* fields of that name (the budget is shared by name) is within it. -/
theorem C12_mp_form_iff (limitOf : String → Option Nat) (total memory : Nat) (fs : List Field)
    (hnd : ∀ f ∈ fs, f.kind ≠ .deny) :
    (multipartForm limitOf total memory fs).1 = .ok ↔
      sumAll fs ≤ total ∧ sumMem fs ≤ memory ∧
      ∀ name L, limitOf name = some L → sumName name fs ≤ L := by
  unfold multipartForm
  rw [formLoop_ok_iff limitOf fs hnd]
  simp [FormFits, rem, flGet]

example : (multipartForm (fun n => if n = "a" then some 16 else none) 100 50
    [⟨"a", .memory, [10]⟩, ⟨"a", .memory, [3, 3]⟩, ⟨"b", .file, [60]⟩]).1 = .ok := by decide
example : (multipartForm (fun n => if n = "a" then some 16 else none) 100 50
    [⟨"a", .memory, [10]⟩, ⟨"a", .memory, [3, 4]⟩]).1 = .overflow 1 := by decide

/-- **C12_mp_form_spec**: the complete result of `MultipartForm` extraction, all three cases
(`FormFits limitOf []` is the three-sum condition of `C12_mp_form_iff`): success means no denied
duplicate and everything fits; `Overflow` is reported at the *first* field whose bytes make a sum
exceed its budget, everything before it having fitted; a denied duplicate is reported only if
everything before it fitted. -/
theorem C12_mp_form_spec (limitOf : String → Option Nat) (total memory : Nat) (fs : List Field) :
    match (multipartForm limitOf total memory fs).1 with
    | .ok => (∀ f ∈ fs, f.kind ≠ .deny) ∧ FormFits limitOf [] total memory fs
    | .overflow j => ∃ pre f suf, fs = pre ++ f :: suf ∧ j = pre.length ∧
        (∀ g ∈ pre, g.kind ≠ .deny) ∧ f.kind ≠ .deny ∧
        FormFits limitOf [] total memory pre ∧ ¬ FormFits limitOf [] total memory (pre ++ [f])
    | .duplicate j => ∃ pre f suf, fs = pre ++ f :: suf ∧ j = pre.length ∧
        (∀ g ∈ pre, g.kind ≠ .deny) ∧ f.kind = .deny ∧ FormFits limitOf [] total memory pre := by
  have := formLoop_spec limitOf fs { total := total, memory := memory, field := none } [] 0
  unfold multipartForm
  revert this
  cases (formLoop limitOf { total := total, memory := memory, field := none } [] 0 fs).1 with
  | ok => exact fun h => h
  | overflow j => intro h; simpa using h
  | duplicate j => intro h; simpa using h

example : (multipartForm (fun _ => none) 10 10 [⟨"b", .memory, [4]⟩, ⟨"b", .deny, [1]⟩]).1 = .duplicate 1 := by decide

/-- the part of a field the budgets can see: name, how it is handled, total size -/
def fieldSig (f : Field) : String × FieldKind × Nat := (f.name, f.kind, fieldSum f)

theorem sums_congr (fs : List Field) : ∀ fs' : List Field, fs.map fieldSig = fs'.map fieldSig →
    sumAll fs = sumAll fs' ∧ sumMem fs = sumMem fs' ∧ (∀ name, sumName name fs = sumName name fs') ∧
    ((∀ f ∈ fs, f.kind ≠ .deny) ↔ (∀ f ∈ fs', f.kind ≠ .deny)) := by
  induction fs with
  | nil =>
    intro fs' h
    cases fs' with
    | nil => simp
    | cons g r => simp at h
  | cons f rest ih =>
    intro fs' h
    cases fs' with
    | nil => simp at h
    | cons g r =>
      simp only [List.map_cons, List.cons.injEq, fieldSig, Prod.mk.injEq] at h
      obtain ⟨⟨hn, hk, hs⟩, hr⟩ := h
      obtain ⟨i1, i2, i3, i4⟩ := ih r hr
      refine ⟨by simp [sumAll, hs, i1], by simp [sumMem, hs, hk, i2], ?_, ?_⟩
      · intro name; simp [sumName, hn, hs, i3 name]
      · simp only [List.mem_cons, forall_eq_or_imp, hk, i4]

/-- **C12_mp_form_chunking_independent**: however the multipart parser cuts the fields' data into
chunks, the form is accepted or refused alike. -/
theorem C12_mp_form_chunking_independent (limitOf : String → Option Nat) (total memory : Nat)
    (fs fs' : List Field) (h : fs.map fieldSig = fs'.map fieldSig) (hnd : ∀ f ∈ fs, f.kind ≠ .deny) :
    ((multipartForm limitOf total memory fs).1 = .ok ↔ (multipartForm limitOf total memory fs').1 = .ok) := by
  obtain ⟨i1, i2, i3, i4⟩ := sums_congr fs fs' h
  rw [C12_mp_form_iff limitOf total memory fs hnd, C12_mp_form_iff limitOf total memory fs' (i4.mp hnd),
    i1, i2]
  simp only [i3]

example : [(⟨"a", .memory, [1, 2, 3]⟩ : Field)].map fieldSig = [(⟨"a", .memory, [6]⟩ : Field)].map fieldSig := by decide

/-! ## 6. `Field::bytes(limit)` -/

/-- **C12_field_bytes_spec**: `Field::bytes` returns the data iff it is within the limit,
`LimitExceeded` otherwise; a stream error wins over both. -/
theorem C12_field_bytes_spec (limit : Nat) (items : List Item) :
    fieldBytes limit items =
      if hasErr items then .streamErr
      else if (bytesBeforeErr items).length ≤ limit then .ok (bytesBeforeErr items)
      else .limitExceeded := by
  have := fieldBytesFrom_spec limit items [] (by simp)
  simpa [fieldBytes] using this

/-- **C12_field_bytes_within**: data is returned only if it is within the limit, complete and
exactly what the field delivered. -/
theorem C12_field_bytes_within (limit : Nat) (items : List Item) (b : Bytes)
    (h : fieldBytes limit items = .ok b) :
    b.length ≤ limit ∧ b = bytesBeforeErr items ∧ hasErr items = false := by
  rw [C12_field_bytes_spec] at h
  cases he : hasErr items
  · rw [he] at h
    simp only [Bool.false_eq_true, if_false] at h
    by_cases hl : (bytesBeforeErr items).length ≤ limit
    · rw [if_pos hl] at h; injection h with h; subst h; exact ⟨hl, rfl, rfl⟩
    · rw [if_neg hl] at h; cases h
  · rw [he] at h; simp at h

/-- **C12_field_bytes_chunking_independent** -/
theorem C12_field_bytes_chunking_independent (limit : Nat) (items items' : List Item)
    (hb : bytesBeforeErr items = bytesBeforeErr items') (he : hasErr items = hasErr items') :
    fieldBytes limit items = fieldBytes limit items' := by
  rw [C12_field_bytes_spec, C12_field_bytes_spec, hb, he]

/-- **C12_field_bytes_buffer_bound**: at every step the buffer is within the limit (it is freed
when the limit is exceeded; the rest of the field is drained chunk by chunk). -/
theorem C12_field_bytes_buffer_bound (limit : Nat) (pre : List Item) :
    (fbRun limit { buf := [], exceeded := false } pre).buf.length ≤ limit :=
  fbRun_inv limit pre _ (by simp)

example : fieldBytes 3 (chunks [[1, 2], [3, 4], [5]]) = .limitExceeded := by decide
example : fieldBytes 3 (chunks [[1, 2], [3]]) = .ok [1, 2, 3] := by decide

/-- **C12_decoder_no_empty_chunks**: the content decoder never hands the extractor an empty chunk. -/
theorem C12_decoder_no_empty_chunks {σ : Type} (c : Codec σ) (s : σ) (items : List Item) (b : Bytes)
    (h : Item.chunk b ∈ decodeItems c s items) : b ≠ [] :=
  decodeItems_nonempty c items s b h

/-- **C12_mp_limit_by_part_name**: the per-field limit that governs a part is the one `limit()`
returns for the part's own (wire) name: a form consisting of parts of one name `n` with
`limitOf n = some L` is accepted only if their bytes sum to at most `L`, whatever other names the
table knows. -/
theorem C12_mp_limit_by_part_name (limitOf : String → Option Nat) (total memory : Nat)
    (fs : List Field) (hnd : ∀ f ∈ fs, f.kind ≠ .deny) (n : String) (L : Nat)
    (hL : limitOf n = some L) (hok : (multipartForm limitOf total memory fs).1 = .ok) :
    sumName n fs ≤ L :=
  ((C12_mp_form_iff limitOf total memory fs hnd).mp hok).2.2 n L hL

/-- **witness_limit_keyed_by_wire_name** (seed C12-r3-1): a 17-byte part named `payload[]` against
a 16-byte field limit.  With the table keyed by the wire name the form is refused at that part;
a table keyed by the Rust identifier (`payload`) lets the same request through. -/
theorem witness_limit_keyed_by_wire_name :
    (multipartForm (fun n => if n = "payload[]" then some 16 else none) 1000 1000
      [⟨"payload[]", .memory, [17]⟩]).1 = .overflow 0 ∧
    (multipartForm (fun n => if n = "payload" then some 16 else none) 1000 1000
      [⟨"payload[]", .memory, [17]⟩]).1 = .ok := by decide

end ActixModel.Collect.C12
