import ActixModel.Proofs.Negotiate
import ActixModel.Proofs.Encoder
import ActixModel.Proofs.Decoder
/-
C13 — content coding is lossless, correctly labelled and correctly negotiated.

Models: `Model/Negotiate.lean` (Accept-Encoding parsing, ranking, `negotiate`, the front half of
the `Compress` middleware) and `Model/Encoder.lean` (`Encoder::response`, `update_head`,
`poll_next`, the back half of the middleware).  Spec: RFC 7231 §5.3.4 (`permits`) and a codec law
(`Lossless`).  Every theorem quantifies over all headers / bodies / chunkings / schedules.
-/
namespace ActixModel.C13
open ActixModel.Util ActixModel.Negotiate ActixModel.Encoder ActixModel.Decoder

/-! ## Spec: RFC 7231 §5.3.4 -/

/-- q-values of the entries that name `c` explicitly -/
def explicitQs (ae : AE) (c : Coding) : List Nat :=
  (ae.filter (fun qi => qi.item = .specific c)).map (·.q)

/-- q-values of the `*` entries -/
def starQs (ae : AE) : List Nat := (ae.filter (fun qi => qi.item = .any)).map (·.q)

/-- May a response to a request with this (present) Accept-Encoding carry coding `c`
(`identity` = no coding)?  An explicit entry wins over `*`; q = 0 forbids; without any matching
entry only `identity` is acceptable.  (If a coding is listed twice with contradictory weights the
RFC is silent; any non-zero weight is read as permission.) -/
def permits (ae : AE) (c : Coding) : Prop :=
  if explicitQs ae c ≠ [] then ∃ q ∈ explicitQs ae c, 0 < q
  else if starQs ae ≠ [] then ∃ q ∈ starQs ae, 0 < q
  else c = .identity

instance (ae : AE) (c : Coding) : Decidable (permits ae c) := by
  unfold permits; infer_instance

theorem C13_aux_mem_explicitQs {ae : AE} {c : Coding} {q : Nat} :
    q ∈ explicitQs ae c ↔ (⟨.specific c, q⟩ : QItem) ∈ ae := by
  simp only [explicitQs, List.mem_map, List.mem_filter, decide_eq_true_eq]
  constructor
  · rintro ⟨⟨i, q'⟩, ⟨hm, hi⟩, hq⟩
    simp only at hi hq
    subst hi; subst hq; exact hm
  · intro h
    exact ⟨⟨.specific c, q⟩, ⟨h, rfl⟩, rfl⟩

theorem C13_aux_mem_starQs {ae : AE} {q : Nat} : q ∈ starQs ae ↔ (⟨.any, q⟩ : QItem) ∈ ae := by
  simp only [starQs, List.mem_map, List.mem_filter, decide_eq_true_eq]
  constructor
  · rintro ⟨⟨i, q'⟩, ⟨hm, hi⟩, hq⟩
    simp only at hi hq
    subst hi; subst hq; exact hm
  · intro h
    exact ⟨⟨.any, q⟩, ⟨h, rfl⟩, rfl⟩

theorem C13_aux_isIdentityItem_iff (qi : QItem) : isIdentityItem qi = true ↔ qi.item = .specific .identity := by
  simp [isIdentityItem]

theorem C13_aux_isAnyItem_iff (qi : QItem) : isAnyItem qi = true ↔ qi.item = .any := by
  simp [isAnyItem]

/-- the identity test of `negotiate`, run on the ranked list, is exactly the RFC's rule -/
theorem C13_aux_identityAcceptable_iff (ae : AE) :
    isIdentityAcceptable (sortStable ae) = true ↔ permits ae .identity := by
  unfold isIdentityAcceptable permits
  by_cases hem : (sortStable ae).isEmpty = true
  · have : ae = [] := by
      have := length_sortStable ae
      cases ae with
      | nil => rfl
      | cons a t => simp [List.isEmpty_iff.mp hem] at this
    subst this
    simp [sortStable, explicitQs, starQs]
  · simp only [hem, Bool.false_eq_true, ↓reduceIte]
    cases hfi : (sortStable ae).find? isIdentityItem with
    | some qi =>
      have hmem := mem_sortStable.mp (List.mem_of_find?_eq_some hfi)
      have hit := (C13_aux_isIdentityItem_iff qi).mp (List.find?_some hfi)
      have hq : qi.q ∈ explicitQs ae .identity := by
        apply C13_aux_mem_explicitQs.mpr
        have : qi = ⟨.specific .identity, qi.q⟩ := by cases qi; simp_all
        rw [← this]; exact hmem
      have hne : explicitQs ae .identity ≠ [] := List.ne_nil_of_mem hq
      simp only [hne, ne_eq, not_false_eq_true, ↓reduceIte, decide_eq_true_eq]
      constructor
      · intro h; exact ⟨qi.q, hq, h⟩
      · rintro ⟨q, hq', hpos⟩
        have hm' : (⟨.specific .identity, q⟩ : QItem) ∈ sortStable ae :=
          mem_sortStable.mpr (C13_aux_mem_explicitQs.mp hq')
        have := find?_max (sorted_sortStable ae) hfi _ hm' (by simp [isIdentityItem])
        have := q_le_of_score_le this
        simp only at this
        omega
    | none =>
      have hnone : explicitQs ae .identity = [] := by
        apply List.eq_nil_iff_forall_not_mem.mpr
        intro q hq
        have hm' := mem_sortStable.mpr (C13_aux_mem_explicitQs.mp hq)
        have := List.find?_eq_none.mp hfi _ hm'
        simp [isIdentityItem] at this
      simp only [hnone, ne_eq, not_true_eq_false, ↓reduceIte]
      cases hfa : (sortStable ae).find? isAnyItem with
      | some qi =>
        have hmem := mem_sortStable.mp (List.mem_of_find?_eq_some hfa)
        have hit := (C13_aux_isAnyItem_iff qi).mp (List.find?_some hfa)
        have hq : qi.q ∈ starQs ae := by
          apply C13_aux_mem_starQs.mpr
          have : qi = ⟨.any, qi.q⟩ := by cases qi; simp_all
          rw [← this]; exact hmem
        have hne : starQs ae ≠ [] := List.ne_nil_of_mem hq
        simp only [hne, not_false_eq_true, ↓reduceIte, decide_eq_true_eq]
        constructor
        · intro h; exact ⟨qi.q, hq, h⟩
        · rintro ⟨q, hq', hpos⟩
          have hm' : (⟨.any, q⟩ : QItem) ∈ sortStable ae := mem_sortStable.mpr (C13_aux_mem_starQs.mp hq')
          have := find?_max (sorted_sortStable ae) hfa _ hm' (by simp [isAnyItem])
          have := q_le_of_score_le this
          simp only at this
          omega
      | none =>
        have hnone' : starQs ae = [] := by
          apply List.eq_nil_iff_forall_not_mem.mpr
          intro q hq
          have hm' := mem_sortStable.mpr (C13_aux_mem_starQs.mp hq)
          have := List.find?_eq_none.mp hfa _ hm'
          simp [isAnyItem] at this
        simp [hnone']

/-- what the `.find(..)` of `negotiate` returns, if anything, is a supported coding listed
explicitly with a non-zero weight -/
theorem C13_aux_matched_spec {ae : AE} {sup : List Coding} {qi : QItem}
    (h : ((sortStable ae).filter (fun qi => decide (qi.q > 0))).find? (matchesSupported sup) = some qi) :
    ∃ c, qi.item = .specific c ∧ c ∈ sup ∧ 0 < qi.q ∧ qi ∈ ae := by
  have hp := List.find?_some h
  have hm := List.mem_of_find?_eq_some h
  simp only [List.mem_filter, decide_eq_true_eq] at hm
  unfold matchesSupported at hp
  cases hi : qi.item with
  | any => simp [hi] at hp
  | specific c =>
    simp only [hi, List.contains_iff_mem] at hp
    exact ⟨c, rfl, hp, hm.2, mem_sortStable.mp hm.1⟩

/-- the three ways `negotiate` can answer `some c` -/
theorem C13_aux_negotiate_cases {ae : AE} {sup : List Coding} {c : Coding} (h : negotiate ae sup = some c) :
    (ae = [] ∧ c = .identity) ∨
    (ae ≠ [] ∧ c = .identity ∧ isIdentityAcceptable (sortStable ae) = true ∧
      (((sortStable ae).filter (fun qi => decide (qi.q > 0))).find? (matchesSupported sup) = none ∨
        (.identity ∈ sup ∧ (dedup sup).length = 1))) ∨
    (ae ≠ [] ∧ ∃ q, ((sortStable ae).filter (fun qi => decide (qi.q > 0))).find? (matchesSupported sup)
        = some ⟨.specific c, q⟩) := by
  unfold negotiate negotiateWith at h
  split at h
  · simp at h
  · split at h
    · rename_i he
      left
      exact ⟨List.isEmpty_iff.mp he, by simpa using h.symm⟩
    · rename_i he
      have hne : ae ≠ [] := fun h' => he (by simp [h'])
      have hr : rankedItems ae = sortStable ae := rankedItems_of_ne_nil (by simpa using he)
      simp only [hr] at h
      split at h
      · rename_i hc
        simp only [Bool.and_eq_true] at hc
        right; left
        exact ⟨hne, by simpa using h.symm, hc.1.1, Or.inr ⟨by simpa using hc.1.2, by simpa using hc.2⟩⟩
      · split at h
        · rename_i c' q' hfind
          right; right
          have : c' = c := by simpa using h
          subst this
          exact ⟨hne, q', hfind⟩
        · rename_i hnot
          split at h
          · rename_i hid
            right; left
            refine ⟨hne, by simpa using h.symm, hid, Or.inl ?_⟩
            cases hf : ((sortStable ae).filter (fun qi => decide (qi.q > 0))).find? (matchesSupported sup) with
            | none => rfl
            | some qi =>
              obtain ⟨c', hi, _, _, _⟩ := C13_aux_matched_spec hf
              exact absurd (by cases qi; simp_all) (hnot c' qi.q)
          · simp at h

/-! ## Negotiation theorems -/

/-- **C13_negotiate_permitted**: whatever `negotiate` chooses — for every header, every
supported set — is a coding the header permits (RFC 7231 §5.3.4).  Holds for the code after the
`fix:` commit; the pre-fix code violates it (`witness_F3_prefix` below). -/
theorem C13_negotiate_permitted (ae : AE) (sup : List Coding) (c : Coding)
    (h : negotiate ae sup = some c) : permits ae c := by
  rcases C13_aux_negotiate_cases h with ⟨he, hc⟩ | ⟨_, hc, hid, _⟩ | ⟨_, q, hf⟩
  · subst he; subst hc; simp [permits, explicitQs, starQs]
  · subst hc; exact (C13_aux_identityAcceptable_iff ae).mp hid
  · obtain ⟨c', hi, _, hq, hm⟩ := C13_aux_matched_spec hf
    simp only [Pref.specific.injEq] at hi
    subst hi
    have hq' : q ∈ explicitQs ae c := C13_aux_mem_explicitQs.mpr hm
    unfold permits
    rw [if_pos (List.ne_nil_of_mem hq')]
    exact ⟨q, hq', hq⟩

example : negotiate [⟨.specific .gzip, 500⟩, ⟨.any, 0⟩] supported = some .gzip := by decide

/-- **C13_negotiate_supported**: the chosen coding is one the server offered, or the
unencoded representation. -/
theorem C13_negotiate_supported (ae : AE) (sup : List Coding) (c : Coding)
    (h : negotiate ae sup = some c) : c ∈ sup ∨ c = .identity := by
  rcases C13_aux_negotiate_cases h with ⟨_, hc⟩ | ⟨_, hc, _, _⟩ | ⟨_, q, hf⟩
  · exact Or.inr hc
  · exact Or.inr hc
  · obtain ⟨c', hi, hs, _, _⟩ := C13_aux_matched_spec hf
    simp only [Pref.specific.injEq] at hi
    subst hi; exact Or.inl hs

/-- `unimplemented!("encoding '{enc}' should not be here")` in `CompressResponse::poll` is
unreachable: the middleware never obtains an `Encoding::Unknown`. -/
theorem C13_mw_known (ae : Option AE) (c : Coding) (h : mwNegotiate ae = .proceed c) :
    c ∈ supported := by
  unfold mwNegotiate at h
  split at h
  · have : c = .identity := by simpa using h.symm
    subst this; simp [supported]
  · split at h
    · simp at h
    · rename_i c' hn
      have : c' = c := by simpa using h
      subst this
      rcases C13_negotiate_supported _ _ _ hn with h' | h'
      · exact h'
      · subst h'; simp [supported]

/-- **C13_negotiate_best**: no supported coding is listed with a larger weight than the chosen
one: if a supported `c'` is listed with weight `q' > 0`, the chosen coding is listed with a
weight `≥ q'`. -/
theorem C13_negotiate_best (ae : AE) (sup : List Coding) (c : Coding)
    (h : negotiate ae sup = some c) (c' : Coding) (hs : c' ∈ sup) (q' : Nat)
    (hq' : q' ∈ explicitQs ae c') (hpos : 0 < q') :
    ∃ q ∈ explicitQs ae c, q' ≤ q := by
  have hm' : (⟨.specific c', q'⟩ : QItem) ∈ (sortStable ae).filter (fun qi => decide (qi.q > 0)) := by
    simp only [List.mem_filter, decide_eq_true_eq]
    exact ⟨mem_sortStable.mpr (C13_aux_mem_explicitQs.mp hq'), hpos⟩
  have hp' : matchesSupported sup ⟨.specific c', q'⟩ = true := by
    simp [matchesSupported, hs]
  rcases C13_aux_negotiate_cases h with ⟨he, _⟩ | ⟨_, hc, hid, hnone | hidsup⟩ | ⟨_, q, hf⟩
  · subst he; simp [explicitQs] at hq'
  · exact absurd hp' (by simpa using List.find?_eq_none.mp hnone _ hm')
  · -- early return: the supported set is {identity}
    have : c' = .identity := eq_of_dedup_length_one hidsup.2 hs hidsup.1
    subst this; subst hc
    exact ⟨q', hq', Nat.le_refl _⟩
  · obtain ⟨c'', hi, _, _, hm⟩ := C13_aux_matched_spec hf
    simp only [Pref.specific.injEq] at hi
    subst hi
    refine ⟨q, C13_aux_mem_explicitQs.mpr hm, ?_⟩
    rw [List.find?_filter] at hf
    have := find?_max (sorted_sortStable ae) hf ⟨.specific c', q'⟩
      (mem_sortStable.mpr (C13_aux_mem_explicitQs.mp hq')) (by simp [hpos, hp'])
    exact q_le_of_score_le this

/-- **C13_negotiate_tiebreak**: among supported codings listed with the same (maximal) weight the
server's ranking br > zstd > gzip > deflate > other decides. -/
theorem C13_negotiate_tiebreak (ae : AE) (sup : List Coding) (c : Coding)
    (h : negotiate ae sup = some c) (c' : Coding) (hs : c' ∈ sup) (q : Nat)
    (hq : q ∈ explicitQs ae c') (hpos : 0 < q) (hmax : ∀ q'' ∈ explicitQs ae c, q'' ≤ q) :
    encodingRank ⟨.specific c', q⟩ ≤ encodingRank ⟨.specific c, q⟩ := by
  have hm' : (⟨.specific c', q⟩ : QItem) ∈ (sortStable ae).filter (fun qi => decide (qi.q > 0)) := by
    simp only [List.mem_filter, decide_eq_true_eq]
    exact ⟨mem_sortStable.mpr (C13_aux_mem_explicitQs.mp hq), hpos⟩
  have hp' : matchesSupported sup ⟨.specific c', q⟩ = true := by simp [matchesSupported, hs]
  rcases C13_aux_negotiate_cases h with ⟨he, _⟩ | ⟨_, hc, hid, hnone | hidsup⟩ | ⟨_, qc, hf⟩
  · subst he; simp [explicitQs] at hq
  · exact absurd hp' (by simpa using List.find?_eq_none.mp hnone _ hm')
  · have : c' = .identity := eq_of_dedup_length_one hidsup.2 hs hidsup.1
    subst this; subst hc; exact Nat.le_refl _
  · obtain ⟨c'', hi, _, _, hm⟩ := C13_aux_matched_spec hf
    simp only [Pref.specific.injEq] at hi
    subst hi
    rw [List.find?_filter] at hf
    have hsc := find?_max (sorted_sortStable ae) hf ⟨.specific c', q⟩
      (mem_sortStable.mpr (C13_aux_mem_explicitQs.mp hq)) (by simp [hpos, hp'])
    have hle := hmax qc (C13_aux_mem_explicitQs.mpr hm)
    have hge := q_le_of_score_le hsc
    simp only at hge
    have : qc = q := by omega
    subst this
    simp only [score] at hsc
    omega

/-! ## F3: the code before the `fix:` commit (kept as a kernel-checked counter-example) -/

/-- Before the fix `Accept-Encoding: *, identity;q=0` negotiated `identity`, which the header
forbids: `C13_negotiate_permitted` is false of the pre-fix code. -/
theorem witness_F3_prefix :
    negotiatePreFix [⟨.any, 1000⟩, ⟨.specific .identity, 0⟩] supported = some .identity ∧
    ¬ permits [⟨.any, 1000⟩, ⟨.specific .identity, 0⟩] .identity := by decide

/-- …and the fixed code answers 406 on the same header. -/
theorem witness_F3_fixed :
    negotiate [⟨.any, 1000⟩, ⟨.specific .identity, 0⟩] supported = none := by decide

/-- `negotiate` answers `None` (⇒ 406) only when the header really excludes the unencoded
representation and lists no supported coding with a non-zero weight. -/
theorem C13_not_acceptable_justified (ae : AE) (sup : List Coding) (hs : sup ≠ [])
    (h : negotiate ae sup = none) :
    ¬ permits ae .identity ∧ ∀ c ∈ sup, ∀ q ∈ explicitQs ae c, q = 0 := by
  unfold negotiate negotiateWith at h
  split at h
  · rename_i he; exact absurd (List.isEmpty_iff.mp he) hs
  · split at h
    · simp at h
    · rename_i he
      have hr : rankedItems ae = sortStable ae := rankedItems_of_ne_nil (by simpa using he)
      simp only [hr] at h
      split at h
      · simp at h
      · split at h
        · simp at h
        · rename_i hnot
          split at h
          · simp at h
          · rename_i hid
            refine ⟨fun hp => hid ((C13_aux_identityAcceptable_iff ae).mpr hp), ?_⟩
            intro c hc q hq
            apply Nat.eq_zero_of_not_pos
            intro hpos
            have hm' : (⟨.specific c, q⟩ : QItem) ∈ (sortStable ae).filter (fun qi => decide (qi.q > 0)) := by
              simp only [List.mem_filter, decide_eq_true_eq]
              exact ⟨mem_sortStable.mpr (C13_aux_mem_explicitQs.mp hq), hpos⟩
            have hp' : matchesSupported sup ⟨.specific c, q⟩ = true := by simp [matchesSupported, hc]
            cases hf : ((sortStable ae).filter (fun qi => decide (qi.q > 0))).find? (matchesSupported sup) with
            | none => exact absurd hp' (by simpa using List.find?_eq_none.mp hf _ hm')
            | some qi =>
              obtain ⟨c', hi, _, _, _⟩ := C13_aux_matched_spec hf
              exact absurd (by cases qi; simp_all) (hnot c' qi.q)

/-! ## Codec law -/

variable {σ : Type}

/-- The law assumed of a compression library and its decoder `D`: whatever chunks are written
(each followed by a `take`, as `poll_next` does on both of its paths), the bytes taken, followed
by the `finish` output, decode to the concatenation of the chunks. -/
def Lossless (c : Codec σ) (D : Bytes → Option Bytes) : Prop :=
  ∀ xs : List Bytes, D (encRest c c.init xs) = some xs.flatten

theorem C13_aux_toy_encRest (s : ToyState) (xs : List Bytes) :
    encRest toyCodec s xs =
      s.outb ++ s.pend ++ xs.flatten ++ [UInt8.ofNat ((s.total + xs.flatten.length) % 256)] := by
  induction xs generalizing s with
  | nil => simp [encRest, toyCodec]
  | cons x t ih =>
    rw [encRest, ih]
    simp only [toyCodec]
    split <;> simp [Nat.add_assoc]

/-- the law is satisfiable: the store-codec of the line driver obeys it (so the theorems below
are not vacuous) -/
theorem C13_toy_lossless : Lossless toyCodec toyDecode := by
  intro xs
  rw [C13_aux_toy_encRest]
  simp [toyCodec, toyDecode]

/-! ## The body stream -/

/-- **C13_stream_lossless**: for every codec obeying the law, every chunking of every body, every
placement of `Pending`s, every completion schedule of the blocking tasks and *every* split between
the in-place and the blocking path: if the handler's body does not fail, the encoder's stream ends
with `Ready(None)` and the emitted chunks decode to exactly the handler's bytes. -/
theorem C13_stream_lossless (inPlace : Bytes → Bool) (c : Codec σ) (D : Bytes → Option Bytes)
    (hl : Lossless c D) (cd : Coding) (body : List BodyEv) (joins : List Nat)
    (hb : hasErr body = false) (fuel : Nat) (hf : fuelFor (initEnc c (.encode cd)) body joins ≤ fuel) :
    D (outChunks (driveAt inPlace c fuel (initEnc c (.encode cd)) body joins)).flatten
        = some (chunksOf body).flatten ∧
    (driveAt inPlace c fuel (initEnc c (.encode cd)) body joins).getLast? = some .done := by
  have hmu : mu (initEnc c (.encode cd)) body joins < fuel := by
    simp only [fuelFor, initEnc] at hf; simp only [mu, initEnc]; omega
  obtain ⟨h1, h2⟩ := drive_rem inPlace c fuel _ body joins hb hmu
  refine ⟨?_, h2⟩
  rw [h1]
  simp only [rem, initEnc, Bool.false_eq_true, ↓reduceIte]
  exact hl _

example : hasErr [.chunk [1, 2], .pending, .chunk [], .chunk [3]] = false := by decide

/-- the theorem instantiated with the code's own split and the concrete store-codec -/
theorem C13_stream_lossless_code (cd : Coding) (body : List BodyEv) (joins : List Nat)
    (hb : hasErr body = false) :
    toyDecode (outChunks (drive toyCodec (fuelFor (initEnc toyCodec (.encode cd)) body joins)
        (initEnc toyCodec (.encode cd)) body joins)).flatten = some (chunksOf body).flatten :=
  (C13_stream_lossless Encoder.inPlaceCode toyCodec toyDecode C13_toy_lossless cd body joins hb _ (Nat.le_refl _)).1

/-- **C13_terminates**: from *any* encoder state, for any body script (including failing ones)
and any schedule, the stream ends — `Ready(None)` or an error — within
`2·|body events| + Σ joins + 3` polls; `fuelFor` polls are always enough. -/
theorem C13_terminates (inPlace : Bytes → Bool) (c : Codec σ) (s : Enc σ) (body : List BodyEv)
    (joins : List Nat) (fuel : Nat) (hf : fuelFor s body joins ≤ fuel) :
    ((driveAt inPlace c fuel s body joins).getLast? = some .done ∨
      (driveAt inPlace c fuel s body joins).getLast? = some .err) ∧
    (driveAt inPlace c fuel s body joins).length ≤ 2 * body.length + joins.sum + 3 := by
  have hmu : mu s body joins < fuel := by simp only [fuelFor] at hf; simp only [mu]; omega
  obtain ⟨h1, h2⟩ := drive_terminates inPlace c fuel s body joins hmu
  refine ⟨h1, ?_⟩
  have : mu s body joins ≤ 2 * body.length + joins.sum + 2 := by
    simp only [mu]; split <;> split <;> omega
  omega

/-- **C13_end_stable**: once `poll_next` has answered `Ready(None)` it keeps answering
`Ready(None)` (whatever the environment would answer). -/
theorem C13_end_stable (inPlace : Bytes → Bool) (c : Codec σ) (s : Enc σ) (body : List BodyEv)
    (joins : List Nat) (h : (pollNextAt inPlace c s body joins).1 = .done) (joins' : List Nat) :
    (pollNextAt inPlace c (pollNextAt inPlace c s body joins).2.1
      (pollNextAt inPlace c s body joins).2.2.1 joins').1 = .done :=
  pollNext_done_stable inPlace c s body joins h joins'

/-- **C13_error_propagated**: if the handler's body fails, the encoded stream fails too (it
never looks complete), provided the encoder has not already finished (`eof` ⇒ no body left). -/
theorem C13_error_propagated (inPlace : Bytes → Bool) (c : Codec σ) (s : Enc σ) (body : List BodyEv)
    (joins : List Nat) (hs : s.eof = false) (hb : hasErr body = true) (fuel : Nat)
    (hf : fuelFor s body joins ≤ fuel) :
    (driveAt inPlace c fuel s body joins).getLast? = some .err := by
  have hmu : mu s body joins < fuel := by simp only [fuelFor] at hf; simp only [mu]; omega
  exact drive_err inPlace c fuel s body joins hs hb hmu

/-! ## Pass-through -/

/-- the responses that must not be re-encoded -/
def MustPass (encoding : Coding) (h : Head) (size : BodySize) : Prop :=
  hContains h.headers "content-encoding" = true ∨ h.status = 101 ∨ h.status = 204 ∨ h.status = 206 ∨
    size = .none ∨ size = .sized 0 ∨ encoding = .identity

/-- **C13_passthrough** (head): already encoded / 101 / 204 / 206 / no body / empty body /
identity negotiated ⇒ `Encoder::response` leaves the head untouched, installs no compressor and
reports the body's own size. -/
theorem C13_passthrough (encoding : Coding) (h : Head) (size : BodySize) (hp : MustPass encoding h size) :
    (response encoding h size).1 = h ∧ (∀ c, (response encoding h size).2 ≠ .encode c) ∧
    encSize (response encoding h size).2 size = size := by
  unfold response
  split
  · simp [encSize]
  · simp [encSize]
  · rename_i hn h0
    have hse : shouldEncode encoding h = false := by
      rcases hp with hp | hp | hp | hp | hp | hp | hp
      · simp [shouldEncode, hp]
      · simp [shouldEncode, hp]
      · simp [shouldEncode, hp]
      · simp [shouldEncode, hp]
      · exact absurd hp hn
      · exact absurd hp h0
      · simp [shouldEncode, hp]
    simp [hse, encSize]

example : MustPass .gzip ⟨206, [("content-range", "bytes 0-1/10")], false⟩ (.sized 2) := by
  simp [MustPass]

/-- **C13_passthrough_stream**: without a compressor (`Mode.plain`) the stream hands over the
body's chunks one for one — same bytes, same boundaries, empty chunks included — and ends as the
body ends: `Ready(None)`, or the error if the body fails (chunks before the failure delivered). -/
theorem C13_passthrough_stream (inPlace : Bytes → Bool) (c : Codec σ) (body : List BodyEv)
    (joins : List Nat) (fuel : Nat) (hf : fuelFor (initEnc c .plain) body joins ≤ fuel) :
    outChunks (driveAt inPlace c fuel (initEnc c .plain) body joins) = chunksOf body ∧
    (driveAt inPlace c fuel (initEnc c .plain) body joins).getLast?
      = some (if hasErr body then .err else .done) := by
  have : 2 * body.length < fuel := by simp only [fuelFor, initEnc] at hf; simp at hf; omega
  exact drive_plain inPlace c fuel body joins this

/-- the two constructors that never poll the body: `Encoder::none()` / `Encoder::empty()` -/
theorem C13_passthrough_nobody (inPlace : Bytes → Bool) (c : Codec σ) (m : Mode)
    (hm : m = .none ∨ m = .empty) (b : RespBody) (joins : List Nat) (fuel : Nat) :
    encBodyEvs m b = [] ∧ driveAt inPlace c (fuel + 1) (initEnc c m) (encBodyEvs m b) joins = [.done] := by
  rcases hm with rfl | rfl <;> simp [encBodyEvs, initEnc, driveAt, pollNextAt]

/-! ## Head of an encoded response -/

/-- **C13_head**: when a compressor is installed, the label is the negotiated coding (exactly one
`Content-Encoding` value), `Vary: accept-encoding` is appended after the handler's own `Vary`
values, every other header and the status are untouched, chunking is re-enabled and the body's
size becomes `Stream` — so the handler's length is never announced for the encoded bytes; and
this happens only for responses that may be encoded. -/
theorem C13_head (encoding : Coding) (h : Head) (size : BodySize) (c : Coding)
    (hm : (response encoding h size).2 = .encode c) :
    c = encoding ∧ selectable c = true ∧ ¬ MustPass encoding h size ∧
    (response encoding h size).1.status = h.status ∧
    hGetAll (response encoding h size).1.headers "content-encoding" = [c.name] ∧
    hGetAll (response encoding h size).1.headers "vary" = hGetAll h.headers "vary" ++ ["accept-encoding"] ∧
    (∀ k, k ≠ "content-encoding" → k ≠ "vary" →
      hGetAll (response encoding h size).1.headers k = hGetAll h.headers k) ∧
    (response encoding h size).1.noChunking = false ∧
    encSize (response encoding h size).2 size = .stream := by
  unfold response at hm ⊢
  split at hm
  · simp at hm
  · simp at hm
  · rename_i hn h0
    split at hm
    · rename_i hc0
      have hc := hc0
      simp only [Bool.and_eq_true] at hc
      have hce : c = encoding := by simpa using hm.symm
      subst hce
      rw [if_pos hc0]
      have hse := hc.1
      simp only [shouldEncode, Bool.not_eq_true', Bool.or_eq_false_iff, beq_eq_false_iff_ne] at hse
      refine ⟨rfl, hc.2, ?_, rfl, ?_, ?_, ?_, rfl, rfl⟩
      · rintro (hp | hp | hp | hp | hp | hp | hp)
        · simp [hp] at hse
        · exact hse.1.1.1.2 (by simp [hp])
        · exact hse.1.1.2 (by simp [hp])
        · exact hse.1.2 (by simp [hp])
        · exact hn hp
        · exact h0 hp
        · exact hse.2 hp
      · have : hGetAll h.headers "content-encoding" = [] := by
          have := hse.1.1.1.1
          simp only [hContains, List.any_eq_false, beq_iff_eq] at this
          simp only [hGetAll, List.map_eq_nil_iff, List.filter_eq_nil_iff, beq_iff_eq]
          exact this
        simp [updateHead, hGetAll, hAppend, hInsert, List.filter_append, List.filter_filter]
      · simp [updateHead, hGetAll, hAppend, hInsert, List.filter_append, List.filter_filter]
        congr 1
        apply List.filter_congr
        intro x _
        by_cases hx : x.1 = "vary" <;> simp [hx]
      · intro k hk1 hk2
        simp [updateHead, hGetAll, hAppend, hInsert, List.filter_append, List.filter_filter, Ne.symm hk1, Ne.symm hk2]
        congr 1
        apply List.filter_congr
        intro x _
        by_cases hx : x.1 = k <;> simp [hx, hk1]
    · simp at hm

example : (response .gzip ⟨200, [("vary", "origin")], true⟩ (.sized 10)).2 = .encode .gzip := by decide

/-- **C13_no_stale_length**: an encoded response is framed `transfer-encoding: chunked` on an h1
connection and carries no `Content-Length` at all — whatever length the handler's body had and
whatever `Content-Length` header the handler set (and even if the handler had disabled chunking). -/
theorem C13_no_stale_length (encoding : Coding) (h : Head) (size : BodySize) (c : Coding)
    (hm : (response encoding h size).2 = .encode c) (hcl : Option String) :
    h1Framing (encSize (response encoding h size).2 size) (response encoding h size).1.noChunking hcl
      = (true, none) := by
  obtain ⟨_, _, _, _, _, _, _, hnc, hsz⟩ := C13_head encoding h size c hm
  rw [hsz, hnc]; rfl

/-- the handler declared the length of its un-encoded body with `no_chunking(len)` (or through
`streaming()` with a `Content-Length`): if the response is encoded, the declared length is not
sent and chunked framing is back on — the special case of `C13_no_stale_length` that needs the
`head.no_chunking(false)` of `update_head` -/
theorem C13_no_stale_length_declared (encoding : Coding) (h : Head) (len : Nat) (size : BodySize)
    (c : Coding) (hm : (response encoding (builderNoChunking h len) size).2 = .encode c) :
    (builderNoChunking h len).noChunking = true ∧
    hGetAll (builderNoChunking h len).headers "content-length" = [toString len] ∧
    h1Framing (encSize (response encoding (builderNoChunking h len) size).2 size)
      (response encoding (builderNoChunking h len) size).1.noChunking (some (toString len)) = (true, none) := by
  refine ⟨rfl, ?_, C13_no_stale_length encoding _ size c hm _⟩
  simp [builderNoChunking, hGetAll, hInsert, List.filter_append, List.filter_filter]

example : (response .gzip (builderNoChunking ⟨200, [], false⟩ 9000) .stream).2 = .encode .gzip := by decide

/-- `update_head` without `head.no_chunking(false)` (seeded change C13-1) -/
def updateHeadNoReset (c : Coding) (h : Head) : Head :=
  { h with headers := hAppend (hInsert h.headers "content-encoding" c.name) "vary" "accept-encoding" }

/-- …and the reset is needed: without it a gzip-encoded `Stream` body of a handler that declared
9000 bytes is framed by `Content-Length: 9000` and no chunking. -/
theorem witness_no_reset_stale :
    h1Framing .stream (updateHeadNoReset .gzip (builderNoChunking ⟨200, [], false⟩ 9000)).noChunking
      (hGetAll (updateHeadNoReset .gzip (builderNoChunking ⟨200, [], false⟩ 9000)).headers "content-length").head?
      = (false, some "9000") := by decide

/-- `streaming()` declares the length exactly when a numeric `Content-Length` is present -/
theorem C13_streaming_declares (h : Head) :
    ((builderStreaming h).1.noChunking = true ∧ ∃ n, (builderStreaming h).2 = .sized n) ∨
    ((builderStreaming h).1.noChunking = h.noChunking ∧ (builderStreaming h).2 = .stream) := by
  unfold builderStreaming
  dsimp only
  split
  · left; exact ⟨rfl, _, rfl⟩
  · right; constructor
    · split <;> rfl
    · rfl

/-- …while a response that is passed through keeps the framing its own size dictates. -/
theorem C13_passthrough_framing (encoding : Coding) (h : Head) (size : BodySize)
    (hp : MustPass encoding h size) (hcl : Option String) :
    h1Framing (encSize (response encoding h size).2 size) (response encoding h size).1.noChunking hcl
      = h1Framing size h.noChunking hcl := by
  obtain ⟨h1, _, h3⟩ := C13_passthrough encoding h size hp
  rw [h3, h1]

/-! ## The middleware as a whole -/

/-- the bytes the handler's body stands for -/
def handlerBytes (b : RespBody) : Bytes :=
  match b.bytes with
  | some bs => bs
  | none => (chunksOf b.evs).flatten

theorem C13_aux_chunksOf_encBodyEvs (m : Mode) (b : RespBody) (hm : m ≠ .none) (hm' : m ≠ .empty) :
    (chunksOf (encBodyEvs m b)).flatten = handlerBytes b := by
  unfold encBodyEvs handlerBytes
  cases m with
  | none => exact absurd rfl hm
  | empty => exact absurd rfl hm'
  | plain =>
    cases hb : b.bytes with
    | none => simp
    | some bs => by_cases he : bs.isEmpty <;> simp_all [chunksOf]
  | encode c =>
    cases hb : b.bytes with
    | none => simp
    | some bs => by_cases he : bs.isEmpty <;> simp_all [chunksOf]

theorem C13_aux_hasErr_encBodyEvs (m : Mode) (b : RespBody) (h : hasErr b.evs = false) :
    hasErr (encBodyEvs m b) = false := by
  unfold encBodyEvs
  cases m <;> simp only [hasErr]
  all_goals (cases b.bytes with
    | none => simpa using h
    | some bs => by_cases he : bs.isEmpty <;> simp [he, hasErr])

/-- the record `compress` builds once a coding has been settled -/
def mkResp (enc : Coding) (h : Head) (b : RespBody) : MwResp :=
  { head := (response enc h b.size).1, mode := (response enc h b.size).2,
    size := encSize (response enc h b.size).2 b.size, evs := encBodyEvs (response enc h b.size).2 b }

theorem C13_aux_compress_cases (ae : AE) (h : Head) (ct : Option (String × String)) (b : RespBody) :
    (negotiate ae supported = none ∧ compress (some ae) h ct b = notAcceptableResp) ∨
    (∃ c0 enc, negotiate ae supported = some c0 ∧ (enc = c0 ∨ enc = .identity) ∧
      compress (some ae) h ct b = mkResp enc h b) := by
  cases hn : negotiate ae supported with
  | none => left; simp [compress, mwNegotiate, hn]
  | some c0 =>
    right
    by_cases hpred : compressPredicate ct = true
    · exact ⟨c0, c0, rfl, Or.inl rfl, by simp [compress, mwNegotiate, hn, hpred, mkResp]⟩
    · exact ⟨c0, .identity, rfl, Or.inr rfl, by simp [compress, mwNegotiate, hn, hpred, mkResp]⟩

/-- **C13_compress_sound**: `Compress` around any handler response, for a request with any
(present) Accept-Encoding `ae`, any content type, any body script without failure, any schedule,
any split, any family of lawful codecs.  If the middleware installs a compressor for coding `cd`
then (1) `ae` permits `cd`, (2) the response is labelled with exactly `cd` and gets
`Vary: accept-encoding` after the handler's own values, (3) its size is `Stream`, (4) the stream
ends and decodes to the handler's bytes. -/
theorem C13_compress_sound (inPlace : Bytes → Bool) (codec : Coding → Codec σ)
    (D : Coding → Bytes → Option Bytes) (hl : ∀ cd, selectable cd = true → Lossless (codec cd) (D cd))
    (ae : AE) (h : Head) (ct : Option (String × String)) (b : RespBody) (joins : List Nat)
    (hb : hasErr b.evs = false) (cd : Coding) (hm : (compress (some ae) h ct b).mode = .encode cd) :
    permits ae cd ∧
    hGetAll (compress (some ae) h ct b).head.headers "content-encoding" = [cd.name] ∧
    hGetAll (compress (some ae) h ct b).head.headers "vary" = hGetAll h.headers "vary" ++ ["accept-encoding"] ∧
    (compress (some ae) h ct b).size = .stream ∧
    ∀ fuel, fuelFor (initEnc (codec cd) (.encode cd)) (compress (some ae) h ct b).evs joins ≤ fuel →
      D cd (outChunks (driveAt inPlace (codec cd) fuel (initEnc (codec cd) (.encode cd))
        (compress (some ae) h ct b).evs joins)).flatten = some (handlerBytes b) ∧
      (driveAt inPlace (codec cd) fuel (initEnc (codec cd) (.encode cd))
        (compress (some ae) h ct b).evs joins).getLast? = some .done := by
  rcases C13_aux_compress_cases ae h ct b with ⟨_, hc⟩ | ⟨c0, enc, hn, henc, hc⟩
  · rw [hc] at hm; simp [notAcceptableResp] at hm
  · rw [hc] at hm ⊢
    simp only [mkResp] at hm ⊢
    obtain ⟨hcd, hsel, hnp, _, hce, hvary, _, _, hsz⟩ := C13_head enc h b.size cd hm
    subst hcd
    have hperm : permits ae cd := by
      rcases henc with rfl | rfl
      · exact C13_negotiate_permitted ae supported _ hn
      · exact absurd (by simp [MustPass]) hnp
    refine ⟨hperm, hce, hvary, hsz, ?_⟩
    intro fuel hf
    rw [hm] at hf ⊢
    have := C13_stream_lossless inPlace (codec cd) (D cd) (hl cd hsel) cd
      (encBodyEvs (.encode cd) b) joins (C13_aux_hasErr_encBodyEvs _ b hb) fuel hf
    rw [C13_aux_chunksOf_encBodyEvs _ b (by simp) (by simp)] at this
    exact this

/-- …and when no compressor is installed the response is the 406 answer or carries the handler's
own head (and, by `C13_passthrough_stream`, the handler's own chunks). -/
theorem C13_compress_untouched (ae : Option AE) (h : Head) (ct : Option (String × String)) (b : RespBody)
    (hm : ∀ cd, (compress ae h ct b).mode ≠ .encode cd) :
    (compress ae h ct b).head = h ∨ (compress ae h ct b) = notAcceptableResp := by
  have key : ∀ enc, (∀ cd, (mkResp enc h b).mode ≠ .encode cd) → (mkResp enc h b).head = h := by
    intro enc hne
    simp only [mkResp] at hne ⊢
    unfold response at hne ⊢
    split
    · rfl
    · rfl
    · split
      · rename_i hc; simp [hc] at hne
      · rfl
  cases ae with
  | none =>
    left
    have hp := C13_passthrough .identity h b.size (by simp [MustPass])
    unfold compress mwNegotiate
    by_cases hpred : compressPredicate ct = true <;> simp [hpred, hp.1]
  | some ae =>
    rcases C13_aux_compress_cases ae h ct b with ⟨_, hc⟩ | ⟨c0, enc, _, _, hc⟩
    · exact Or.inr hc
    · rw [hc] at hm ⊢; exact Or.inl (key enc hm)

/-- no Accept-Encoding header ⇒ nothing is encoded, whatever the handler answers -/
theorem C13_no_header_no_encoding (h : Head) (ct : Option (String × String)) (b : RespBody) :
    (compress none h ct b).head = h ∧ ∀ c, (compress none h ct b).mode ≠ .encode c := by
  have hp := C13_passthrough .identity h b.size (by simp [MustPass])
  unfold compress mwNegotiate
  simp only
  by_cases hpred : compressPredicate ct = true
  · simp only [hpred, ↓reduceIte]; exact ⟨hp.1, hp.2.1⟩
  · simp only [hpred, Bool.false_eq_true, ↓reduceIte]; exact ⟨hp.1, hp.2.1⟩

/-! ## Request side: `Decoder` (`dev::Decompress`) -/

/-- The law assumed of a decompression library for the coding whose compressed image of `orig` is
`E orig`: however the image is cut into chunks, feeding them succeeds and the outputs, followed by
the `feed_eof` output, are `orig`. -/
def DecLossless (d : DCodec σ) (E : Bytes → Bytes) : Prop :=
  ∀ (orig : Bytes) (xs : List Bytes), xs.flatten = E orig → decRest d d.init xs = some orig

/-- the pass-through "decompressor" obeys the law for the identity coding (non-vacuity) -/
theorem C13_idDCodec_lossless :
    DecLossless (σ := Unit) ⟨(), fun _ b => some (b, ()), fun _ => some []⟩ id := by
  intro orig xs h
  have : ∀ (xs : List Bytes) (u : Unit),
      decRest (σ := Unit) ⟨(), fun _ b => some (b, ()), fun _ => some []⟩ u xs = some xs.flatten := by
    intro xs
    induction xs with
    | nil => intro u; simp [decRest]
    | cons x t ih => intro u; simp [decRest, ih]
  rw [this, h]; rfl

/-- **C13_request_decoded**: a request body sent with a supported Content-Encoding is delivered
decoded and equal to the original — for every lawful decompressor, every cut of the compressed
image into payload chunks, every placement of `Pending`s, every schedule of the blocking tasks and
every split between the in-place and the blocking path; and the stream ends. -/
theorem C13_request_decoded (inPlace : Bytes → Bool) (d : DCodec σ) (E : Bytes → Bytes)
    (hl : DecLossless d E) (orig : Bytes) (body : List BodyEv) (joins : List Nat)
    (hb : hasErr body = false) (henc : (chunksOf body).flatten = E orig) (fuel : Nat)
    (hf : dFuelFor (initDec d true) body joins ≤ fuel) :
    (outChunks (dDriveAt inPlace d fuel (initDec d true) body joins)).flatten = orig ∧
    (dDriveAt inPlace d fuel (initDec d true) body joins).getLast? = some .done := by
  have hmu : muD (initDec d true) body joins < fuel := by
    simp only [dFuelFor, initDec] at hf; simp only [muD, initDec]; omega
  apply dDrive_rem inPlace d fuel _ body joins orig hb _ hmu
  simp only [remD, initDec, ↓reduceIte, Bool.false_eq_true]
  exact hl orig _ henc

/-- without a decompressor (no / `identity` / unknown Content-Encoding) the payload is handed on
as it is -/
theorem C13_request_passthrough (inPlace : Bytes → Bool) (d : DCodec σ) (body : List BodyEv)
    (joins : List Nat) (hb : hasErr body = false) (fuel : Nat)
    (hf : dFuelFor (initDec d false) body joins ≤ fuel) :
    (outChunks (dDriveAt inPlace d fuel (initDec d false) body joins)).flatten = (chunksOf body).flatten ∧
    (dDriveAt inPlace d fuel (initDec d false) body joins).getLast? = some .done := by
  have hmu : muD (initDec d false) body joins < fuel := by
    simp only [dFuelFor, initDec] at hf; simp only [muD, initDec]; omega
  apply dDrive_rem inPlace d fuel _ body joins _ hb _ hmu
  simp [remD, initDec]

/-- **C13_request_terminates**: from any decoder state, any payload script and schedule, the
decoded stream ends (`Ready(None)` or an error) within `2·|events| + Σ joins + 3` polls. -/
theorem C13_request_terminates (inPlace : Bytes → Bool) (d : DCodec σ) (s : Dec σ) (body : List BodyEv)
    (joins : List Nat) (fuel : Nat) (hf : dFuelFor s body joins ≤ fuel) :
    ((dDriveAt inPlace d fuel s body joins).getLast? = some .done ∨
      (dDriveAt inPlace d fuel s body joins).getLast? = some .err) ∧
    (dDriveAt inPlace d fuel s body joins).length ≤ 2 * body.length + joins.sum + 3 := by
  have hmu : muD s body joins < fuel := by simp only [dFuelFor] at hf; simp only [muD]; omega
  obtain ⟨h1, h2⟩ := dDrive_terminates inPlace d fuel s body joins hmu
  refine ⟨h1, ?_⟩
  have : muD s body joins ≤ 2 * body.length + joins.sum + 2 := by
    simp only [muD]; split <;> split <;> omega
  omega

/-- which labels get a decompressor: exactly br / gzip / deflate / zstd, case-insensitively,
surrounding blanks ignored (finite table) -/
theorem C13_decoder_selection :
    decoderFor none = none ∧ decoderFor (some "identity") = none ∧ decoderFor (some "x-foo") = none ∧
    decoderFor (some "gzip") = some .gzip ∧ decoderFor (some " GZip ") = some .gzip ∧
    decoderFor (some "br") = some .br ∧ decoderFor (some "deflate") = some .deflate ∧
    decoderFor (some "zstd") = some .zstd := by decide

/-! ### the driver's streaming store-decoder obeys the decompressor law -/

/-- what `toyCodec` makes of a body -/
def toyImage (orig : Bytes) : Bytes := [0x54] ++ orig ++ [UInt8.ofNat (orig.length % 256)]

theorem C13_aux_toyImage (orig : Bytes) : encRest toyCodec toyCodec.init [orig] = toyImage orig := by
  rw [C13_aux_toy_encRest]; simp [toyCodec, toyImage]

theorem C13_aux_fold_none (bs : Bytes) : bs.foldl toyDecStep none = none := by
  induction bs with
  | nil => rfl
  | cons x t ih => simpa [toyDecStep] using ih

theorem C13_aux_fold_shift (bs : Bytes) : ∀ (acc : Bytes) (s : ToyDec),
    bs.foldl toyDecStep (some (acc, s)) =
      (bs.foldl toyDecStep (some ([], s))).map (fun r => (r.1 ++ acc, r.2)) := by
  induction bs with
  | nil => intro acc s; simp
  | cons x t ih =>
    intro acc s
    simp only [List.foldl_cons]
    cases hs : toyDecStep (some ([], s)) x with
    | none =>
      have : toyDecStep (some (acc, s)) x = none := by
        simp only [toyDecStep] at hs ⊢
        split at hs <;> simp_all
        split at hs <;> simp_all
      rw [this, C13_aux_fold_none]; simp
    | some r =>
      obtain ⟨a0, s'⟩ := r
      have : toyDecStep (some (acc, s)) x = some (a0 ++ acc, s') := by
        simp only [toyDecStep] at hs ⊢
        split at hs
        · split at hs <;> simp_all
        · split at hs <;> simp_all
          obtain ⟨h1, h2⟩ := hs
          subst h1; simp
      rw [this, ih (a0 ++ acc) s', ih a0 s']
      cases t.foldl toyDecStep (some ([], s')) <;> simp

theorem C13_aux_feed_append (s : ToyDec) (a b : Bytes) :
    toyDCodec.feed s (a ++ b) =
      match toyDCodec.feed s a with
      | none => none
      | some r => (toyDCodec.feed r.2 b).map (fun r' => (r.1 ++ r'.1, r'.2)) := by
  simp only [toyDCodec, List.foldl_append]
  cases h : a.foldl toyDecStep (some ([], s)) with
  | none => simp [C13_aux_fold_none]
  | some r =>
    obtain ⟨acc1, s1⟩ := r
    rw [C13_aux_fold_shift b acc1 s1]
    cases hw : List.foldl toyDecStep (some ([], s1)) b with
    | none => simp [hw]
    | some w => simp [hw]

theorem C13_aux_decRest_toy (xs : List Bytes) : ∀ s : ToyDec,
    decRest toyDCodec s xs =
      match toyDCodec.feed s xs.flatten with
      | none => none
      | some r => (toyDCodec.feedEof r.2).map (r.1 ++ ·) := by
  induction xs with
  | nil => intro s; simp [decRest, toyDCodec]
  | cons x t ih =>
    intro s
    simp only [decRest, List.flatten_cons, C13_aux_feed_append]
    cases hx : toyDCodec.feed s x with
    | none => rfl
    | some r =>
      simp only [ih r.2]
      cases toyDCodec.feed r.2 t.flatten with
      | none => rfl
      | some r' =>
        simp only [Option.map_some]
        cases toyDCodec.feedEof r'.2 <;> simp

theorem C13_aux_fold_held (m : Bytes) (t : UInt8) : ∀ (acc : Bytes) (y : UInt8) (n : Nat),
    (m ++ [t]).foldl toyDecStep (some (acc, ⟨true, some y, n⟩)) =
      some ((y :: m).reverse ++ acc, ⟨true, some t, n + m.length + 1⟩) := by
  induction m with
  | nil => intro acc y n; simp [toyDecStep]
  | cons x m ih =>
    intro acc y n
    simp only [List.cons_append, List.foldl_cons, toyDecStep]
    simp only [Bool.not_true, Bool.false_eq_true, ↓reduceIte]
    rw [ih]
    simp [Nat.add_assoc, Nat.add_comm 1]

theorem C13_aux_feed_image (orig : Bytes) :
    toyDCodec.feed toyDCodec.init (toyImage orig) =
      some (orig, ⟨true, some (UInt8.ofNat (orig.length % 256)), orig.length⟩) := by
  cases orig with
  | nil => simp [toyDCodec, toyImage, toyDecStep]
  | cons b m =>
    simp only [toyDCodec, toyImage, List.cons_append, List.nil_append, List.foldl_cons, toyDecStep]
    simp only [Bool.not_false, ↓reduceIte, BEq.rfl, Bool.not_true, Bool.false_eq_true]
    rw [C13_aux_fold_held]
    simp

/-- **C13_toy_dec_lossless**: the streaming store-decoder of the line driver is lawful for the
store-codec's image, under every cut of that image (the hypothesis of `C13_request_decoded` is
satisfiable by a decoder that really buffers, holds bytes back and checks a trailer). -/
theorem C13_toy_dec_lossless : DecLossless toyDCodec toyImage := by
  intro orig xs h
  rw [C13_aux_decRest_toy, h, C13_aux_feed_image]
  simp [toyDCodec]

/-! ### hypotheses are satisfiable: concrete instances -/

/-- `C13_request_decoded` instantiated with the code's split and the driver's store-decoder -/
theorem C13_request_decoded_toy (orig : Bytes) (body : List BodyEv) (joins : List Nat)
    (hb : hasErr body = false) (henc : (chunksOf body).flatten = toyImage orig) :
    (outChunks (dDriveAt Decoder.inPlaceCode toyDCodec (dFuelFor (initDec toyDCodec true) body joins)
      (initDec toyDCodec true) body joins)).flatten = orig :=
  (C13_request_decoded Decoder.inPlaceCode toyDCodec toyImage C13_toy_dec_lossless orig body joins hb henc
    _ (Nat.le_refl _)).1

-- a payload cut in the middle of the trailer-bearing image, with a Pending in between
example : (chunksOf [.chunk [0x54, 7], .pending, .chunk [8, 2]]).flatten = toyImage [7, 8] := by decide
-- a failing body for `C13_error_propagated`
example : hasErr [.chunk [1], .pending, .err, .chunk [2]] = true := by decide
-- a header for which `negotiate` answers `None` (`C13_not_acceptable_justified`)
example : negotiate [⟨.specific .identity, 0⟩, ⟨.specific (.other "compress"), 1000⟩] supported = none := by decide
-- two supported codings with equal weight (`C13_negotiate_tiebreak`): br wins over gzip
example : negotiate [⟨.specific .gzip, 800⟩, ⟨.specific .br, 800⟩] supported = some .br := by decide
-- `C13_compress_sound`: the middleware installs a compressor here
example : (compress (some [⟨.specific .zstd, 1000⟩]) ⟨200, [("vary", "origin")], false⟩ (some ("text", "plain"))
    ⟨.stream, none, [.chunk [1, 2, 3]]⟩).mode = .encode .zstd := by decide

end ActixModel.C13
