import ActixModel.Proofs.Negotiate
import ActixModel.Proofs.Encoder
/-
C13 — content coding is lossless, correctly labelled and correctly negotiated.

Models: `Model/Negotiate.lean` (Accept-Encoding parsing, ranking, `negotiate`, the front half of
the `Compress` middleware) and `Model/Encoder.lean` (`Encoder::response`, `update_head`,
`poll_next`, the back half of the middleware).  Spec: RFC 7231 §5.3.4 (`permits`) and a codec law
(`Lossless`).  Every theorem quantifies over all headers / bodies / chunkings / schedules.
-/
namespace ActixModel.C13
open ActixModel.Util ActixModel.Negotiate ActixModel.Encoder

/-! ## Spec: RFC 7231 §5.3.4 -/

/-- q-values of the entries that name `c` explicitly -/
def explicitQs (ae : AE) (c : Coding) : List Nat :=
  (ae.filter (fun qi => qi.item = .specific c)).map (·.q)

/-- q-values of the `*` entries -/
def starQs (ae : AE) : List Nat := (ae.filter (fun qi => qi.item = .any)).map (·.q)

/-- May a response to a request with this (present) Accept-Encoding carry coding `c`
(`identity` = no coding)?  An explicit entry wins over `*`; q = 0 forbids; without any matching
entry only `identity` is acceptable.  (If a coding is listed twice with contradictory weights the
RFC is silent; any non-zero weight is read as permission.) -/
def permits (ae : AE) (c : Coding) : Prop :=
  if explicitQs ae c ≠ [] then ∃ q ∈ explicitQs ae c, 0 < q
  else if starQs ae ≠ [] then ∃ q ∈ starQs ae, 0 < q
  else c = .identity

instance (ae : AE) (c : Coding) : Decidable (permits ae c) := by
  unfold permits; infer_instance

theorem mem_explicitQs {ae : AE} {c : Coding} {q : Nat} :
    q ∈ explicitQs ae c ↔ (⟨.specific c, q⟩ : QItem) ∈ ae := by
  simp only [explicitQs, List.mem_map, List.mem_filter, decide_eq_true_eq]
  constructor
  · rintro ⟨⟨i, q'⟩, ⟨hm, hi⟩, hq⟩
    simp only at hi hq
    subst hi; subst hq; exact hm
  · intro h
    exact ⟨⟨.specific c, q⟩, ⟨h, rfl⟩, rfl⟩

theorem mem_starQs {ae : AE} {q : Nat} : q ∈ starQs ae ↔ (⟨.any, q⟩ : QItem) ∈ ae := by
  simp only [starQs, List.mem_map, List.mem_filter, decide_eq_true_eq]
  constructor
  · rintro ⟨⟨i, q'⟩, ⟨hm, hi⟩, hq⟩
    simp only at hi hq
    subst hi; subst hq; exact hm
  · intro h
    exact ⟨⟨.any, q⟩, ⟨h, rfl⟩, rfl⟩

theorem isIdentityItem_iff (qi : QItem) : isIdentityItem qi = true ↔ qi.item = .specific .identity := by
  simp [isIdentityItem]

theorem isAnyItem_iff (qi : QItem) : isAnyItem qi = true ↔ qi.item = .any := by
  simp [isAnyItem]

/-- the identity test of `negotiate`, run on the ranked list, is exactly the RFC's rule -/
theorem identityAcceptable_iff (ae : AE) :
    isIdentityAcceptable (sortStable ae) = true ↔ permits ae .identity := by
  unfold isIdentityAcceptable permits
  by_cases hem : (sortStable ae).isEmpty = true
  · have : ae = [] := by
      have := length_sortStable ae
      cases ae with
      | nil => rfl
      | cons a t => simp [List.isEmpty_iff.mp hem] at this
    subst this
    simp [sortStable, explicitQs, starQs]
  · simp only [hem, Bool.false_eq_true, ↓reduceIte]
    cases hfi : (sortStable ae).find? isIdentityItem with
    | some qi =>
      have hmem := mem_sortStable.mp (List.mem_of_find?_eq_some hfi)
      have hit := (isIdentityItem_iff qi).mp (List.find?_some hfi)
      have hq : qi.q ∈ explicitQs ae .identity := by
        apply mem_explicitQs.mpr
        have : qi = ⟨.specific .identity, qi.q⟩ := by cases qi; simp_all
        rw [← this]; exact hmem
      have hne : explicitQs ae .identity ≠ [] := List.ne_nil_of_mem hq
      simp only [hne, ne_eq, not_false_eq_true, ↓reduceIte, decide_eq_true_eq]
      constructor
      · intro h; exact ⟨qi.q, hq, h⟩
      · rintro ⟨q, hq', hpos⟩
        have hm' : (⟨.specific .identity, q⟩ : QItem) ∈ sortStable ae :=
          mem_sortStable.mpr (mem_explicitQs.mp hq')
        have := find?_max (sorted_sortStable ae) hfi _ hm' (by simp [isIdentityItem])
        have := q_le_of_score_le this
        simp only at this
        omega
    | none =>
      have hnone : explicitQs ae .identity = [] := by
        apply List.eq_nil_iff_forall_not_mem.mpr
        intro q hq
        have hm' := mem_sortStable.mpr (mem_explicitQs.mp hq)
        have := List.find?_eq_none.mp hfi _ hm'
        simp [isIdentityItem] at this
      simp only [hnone, ne_eq, not_true_eq_false, ↓reduceIte]
      cases hfa : (sortStable ae).find? isAnyItem with
      | some qi =>
        have hmem := mem_sortStable.mp (List.mem_of_find?_eq_some hfa)
        have hit := (isAnyItem_iff qi).mp (List.find?_some hfa)
        have hq : qi.q ∈ starQs ae := by
          apply mem_starQs.mpr
          have : qi = ⟨.any, qi.q⟩ := by cases qi; simp_all
          rw [← this]; exact hmem
        have hne : starQs ae ≠ [] := List.ne_nil_of_mem hq
        simp only [hne, not_false_eq_true, ↓reduceIte, decide_eq_true_eq]
        constructor
        · intro h; exact ⟨qi.q, hq, h⟩
        · rintro ⟨q, hq', hpos⟩
          have hm' : (⟨.any, q⟩ : QItem) ∈ sortStable ae := mem_sortStable.mpr (mem_starQs.mp hq')
          have := find?_max (sorted_sortStable ae) hfa _ hm' (by simp [isAnyItem])
          have := q_le_of_score_le this
          simp only at this
          omega
      | none =>
        have hnone' : starQs ae = [] := by
          apply List.eq_nil_iff_forall_not_mem.mpr
          intro q hq
          have hm' := mem_sortStable.mpr (mem_starQs.mp hq)
          have := List.find?_eq_none.mp hfa _ hm'
          simp [isAnyItem] at this
        simp [hnone']

/-- what the `.find(..)` of `negotiate` returns, if anything, is a supported coding listed
explicitly with a non-zero weight -/
theorem matched_spec {ae : AE} {sup : List Coding} {qi : QItem}
    (h : ((sortStable ae).filter (fun qi => decide (qi.q > 0))).find? (matchesSupported sup) = some qi) :
    ∃ c, qi.item = .specific c ∧ c ∈ sup ∧ 0 < qi.q ∧ qi ∈ ae := by
  have hp := List.find?_some h
  have hm := List.mem_of_find?_eq_some h
  simp only [List.mem_filter, decide_eq_true_eq] at hm
  unfold matchesSupported at hp
  cases hi : qi.item with
  | any => simp [hi] at hp
  | specific c =>
    simp only [hi, List.contains_iff_mem] at hp
    exact ⟨c, rfl, hp, hm.2, mem_sortStable.mp hm.1⟩

/-- the three ways `negotiate` can answer `some c` -/
theorem negotiate_cases {ae : AE} {sup : List Coding} {c : Coding} (h : negotiate ae sup = some c) :
    (ae = [] ∧ c = .identity) ∨
    (ae ≠ [] ∧ c = .identity ∧ isIdentityAcceptable (sortStable ae) = true ∧
      (((sortStable ae).filter (fun qi => decide (qi.q > 0))).find? (matchesSupported sup) = none ∨
        (.identity ∈ sup ∧ (dedup sup).length = 1))) ∨
    (ae ≠ [] ∧ ∃ q, ((sortStable ae).filter (fun qi => decide (qi.q > 0))).find? (matchesSupported sup)
        = some ⟨.specific c, q⟩) := by
  unfold negotiate negotiateWith at h
  split at h
  · simp at h
  · split at h
    · rename_i he
      left
      exact ⟨List.isEmpty_iff.mp he, by simpa using h.symm⟩
    · rename_i he
      have hne : ae ≠ [] := fun h' => he (by simp [h'])
      have hr : rankedItems ae = sortStable ae := rankedItems_of_ne_nil (by simpa using he)
      simp only [hr] at h
      split at h
      · rename_i hc
        simp only [Bool.and_eq_true] at hc
        right; left
        exact ⟨hne, by simpa using h.symm, hc.1.1, Or.inr ⟨by simpa using hc.1.2, by simpa using hc.2⟩⟩
      · split at h
        · rename_i c' q' hfind
          right; right
          have : c' = c := by simpa using h
          subst this
          exact ⟨hne, q', hfind⟩
        · rename_i hnot
          split at h
          · rename_i hid
            right; left
            refine ⟨hne, by simpa using h.symm, hid, Or.inl ?_⟩
            cases hf : ((sortStable ae).filter (fun qi => decide (qi.q > 0))).find? (matchesSupported sup) with
            | none => rfl
            | some qi =>
              obtain ⟨c', hi, _, _, _⟩ := matched_spec hf
              exact absurd (by cases qi; simp_all) (hnot c' qi.q)
          · simp at h

/-! ## Negotiation theorems -/

/-- **C13_negotiate_permitted**: whatever `negotiate` chooses — for every header, every
supported set — is a coding the header permits (RFC 7231 §5.3.4).  Holds for the code after the
`fix:` commit; the pre-fix code violates it (`witness_F3_prefix` below). -/
theorem C13_negotiate_permitted (ae : AE) (sup : List Coding) (c : Coding)
    (h : negotiate ae sup = some c) : permits ae c := by
  rcases negotiate_cases h with ⟨he, hc⟩ | ⟨_, hc, hid, _⟩ | ⟨_, q, hf⟩
  · subst he; subst hc; simp [permits, explicitQs, starQs]
  · subst hc; exact (identityAcceptable_iff ae).mp hid
  · obtain ⟨c', hi, _, hq, hm⟩ := matched_spec hf
    simp only [Pref.specific.injEq] at hi
    subst hi
    have hq' : q ∈ explicitQs ae c := mem_explicitQs.mpr hm
    unfold permits
    rw [if_pos (List.ne_nil_of_mem hq')]
    exact ⟨q, hq', hq⟩

example : negotiate [⟨.specific .gzip, 500⟩, ⟨.any, 0⟩] supported = some .gzip := by decide

/-- **C13_negotiate_supported**: the chosen coding is one the server offered, or the
unencoded representation. -/
theorem C13_negotiate_supported (ae : AE) (sup : List Coding) (c : Coding)
    (h : negotiate ae sup = some c) : c ∈ sup ∨ c = .identity := by
  rcases negotiate_cases h with ⟨_, hc⟩ | ⟨_, hc, _, _⟩ | ⟨_, q, hf⟩
  · exact Or.inr hc
  · exact Or.inr hc
  · obtain ⟨c', hi, hs, _, _⟩ := matched_spec hf
    simp only [Pref.specific.injEq] at hi
    subst hi; exact Or.inl hs

/-- `unimplemented!("encoding '{enc}' should not be here")` in `CompressResponse::poll` is
unreachable: the middleware never obtains an `Encoding::Unknown`. -/
theorem C13_mw_known (ae : Option AE) (c : Coding) (h : mwNegotiate ae = .proceed c) :
    c ∈ supported := by
  unfold mwNegotiate at h
  split at h
  · have : c = .identity := by simpa using h.symm
    subst this; simp [supported]
  · split at h
    · simp at h
    · rename_i c' hn
      have : c' = c := by simpa using h
      subst this
      rcases C13_negotiate_supported _ _ _ hn with h' | h'
      · exact h'
      · subst h'; simp [supported]

/-- **C13_negotiate_best**: no supported coding is listed with a larger weight than the chosen
one: if a supported `c'` is listed with weight `q' > 0`, the chosen coding is listed with a
weight `≥ q'`. -/
theorem C13_negotiate_best (ae : AE) (sup : List Coding) (c : Coding)
    (h : negotiate ae sup = some c) (c' : Coding) (hs : c' ∈ sup) (q' : Nat)
    (hq' : q' ∈ explicitQs ae c') (hpos : 0 < q') :
    ∃ q ∈ explicitQs ae c, q' ≤ q := by
  have hm' : (⟨.specific c', q'⟩ : QItem) ∈ (sortStable ae).filter (fun qi => decide (qi.q > 0)) := by
    simp only [List.mem_filter, decide_eq_true_eq]
    exact ⟨mem_sortStable.mpr (mem_explicitQs.mp hq'), hpos⟩
  have hp' : matchesSupported sup ⟨.specific c', q'⟩ = true := by
    simp [matchesSupported, hs]
  rcases negotiate_cases h with ⟨he, _⟩ | ⟨_, hc, hid, hnone | hidsup⟩ | ⟨_, q, hf⟩
  · subst he; simp [explicitQs] at hq'
  · exact absurd hp' (by simpa using List.find?_eq_none.mp hnone _ hm')
  · -- early return: the supported set is {identity}
    have : c' = .identity := eq_of_dedup_length_one hidsup.2 hs hidsup.1
    subst this; subst hc
    exact ⟨q', hq', Nat.le_refl _⟩
  · obtain ⟨c'', hi, _, _, hm⟩ := matched_spec hf
    simp only [Pref.specific.injEq] at hi
    subst hi
    refine ⟨q, mem_explicitQs.mpr hm, ?_⟩
    rw [List.find?_filter] at hf
    have := find?_max (sorted_sortStable ae) hf ⟨.specific c', q'⟩
      (mem_sortStable.mpr (mem_explicitQs.mp hq')) (by simp [hpos, hp'])
    exact q_le_of_score_le this

end ActixModel.C13
