import ActixModel.Proofs.WsCodec
import ActixModel.Proofs.WsGrammar
import ActixModel.Proofs.WsHandshake
/-
C14 — WebSocket handshake and frame codec: round trip, segmentation independence, strictness.

Model: `ActixModel/Model/Ws.lean` (proto.rs, mask.rs, frame.rs, codec.rs as coded, after the F4
fix) and `ActixModel/Model/WsHandshake.lean`.  Every theorem quantifies over all buffers / keys /
payloads / alignments / `max_size` values; nothing is bounded.
-/
set_option linter.unusedSimpArgs false
namespace ActixModel.Ws.C14
open ActixModel.Util ActixModel.Ws

/-! ## mask.rs -/

/-- **C14_mask_fast_eq**: for every address alignment of the buffer (all of `align_to_mut`'s
prefix / words / suffix splits), every key and every buffer, the word-at-a-time path computes
what the byte-at-a-time path computes. -/
theorem C14_mask_fast_eq (align : Nat) (buf : Bytes) (key : Mask) :
    applyMaskFast32 align buf key = applyMaskFallback buf key :=
  applyMaskFast32_eq align buf key

/-- **C14_mask_involution**: unmasking undoes masking, whatever the two buffers' alignments. -/
theorem C14_mask_involution (al al' : Nat) (buf : Bytes) (key : Mask) :
    applyMask al' (applyMask al buf key) key = buf ∧ (applyMask al buf key).length = buf.length :=
  ⟨applyMask_involutive al al' buf key, applyMask_length al buf key⟩

/-! ## frame.rs: limits -/

/-- **C14_refuse_unbuffered**: as soon as the header is complete (`parse_metadata` succeeded) a
frame announcing more than `max_size` is refused — however little of its payload has arrived.
(False before the `fix:` commit: the code answered `Ok(None)` until the whole payload was
buffered; DESIGN §6 F4.) -/
theorem C14_refuse_unbuffered (al : Nat) (src : Bytes) (server : Bool) (maxSize : Nat) (m : Meta)
    (hm : parseMetadata src server = .ok m) (hbig : m.length > maxSize) :
    (parse al src server maxSize).1 = .err .overflow := by
  rw [parse_of_meta al src server maxSize m hm]
  repeat' split
  all_goals first | rfl | omega

example : ∃ src m, parseMetadata src true = .ok m ∧ m.length > 1024 ∧ src.length < m.idx + m.length :=
  ⟨[0x82, 0xff, 0, 0, 1, 0, 0, 0, 0, 0, 1, 2, 3, 4], ⟨14, true, .binary, 2 ^ 40, some ⟨1, 2, 3, 4⟩⟩, by decide, by decide, by decide⟩

/-- **C14_max_size**: a delivered payload is never longer than `max_size` (and `Some` payloads are
never empty). -/
theorem C14_max_size (al : Nat) (src : Bytes) (server : Bool) (maxSize : Nat)
    (fin : Bool) (op : OpCode) (pl rest : Bytes)
    (h : parse al src server maxSize = (.frame fin op (some pl), rest)) :
    pl.length ≤ maxSize ∧ pl.length ≠ 0 := by
  obtain ⟨m, hm, hle, _, hmx, hp⟩ := parse_frame_rest al src server maxSize fin op (some pl) rest h
  rcases hp with hp | ⟨hp, h0⟩
  · simp at hp
  · have : pl = payloadOf src m := Option.some.inj hp
    have hl : pl.length = m.length := by
      rw [this]; unfold payloadOf
      cases m.mask <;> simp <;> omega
    omega

example : parse 0 [0x81, 0x02, 0x68, 0x69, 0xff] false 2 = (.frame true .text (some [0x68, 0x69]), [0xff]) := by
  decide +kernel

/-! ## frame.rs: strictness decided by the first two bytes -/

/-- **C14_strict_masking**: a frame whose MASK bit does not fit the receiving role is refused as
soon as two bytes are there: unmasked at a server, masked at a client. -/
theorem C14_strict_masking (al : Nat) (src : Bytes) (server : Bool) (maxSize : Nat) (h2 : 2 ≤ src.length)
    (hwrong : ((src.getD 1 0 &&& 0x80) != 0) ≠ server) :
    (parse al src server maxSize).1 = .err (if server then .unmaskedFrame else .maskedFrame) := by
  have hh := parseMetadata_head src server h2
  simp only [] at hh
  cases server
  · have hm : ((src.getD 1 0 &&& 0x80) != 0) = true := by
      cases h : ((src.getD 1 0 &&& 0x80) != 0) <;> simp_all
    rw [parse_of_meta_err al src false maxSize _ (hh.2.1 hm rfl)]; rfl
  · have hm : ((src.getD 1 0 &&& 0x80) != 0) = false := by
      cases h : ((src.getD 1 0 &&& 0x80) != 0) <;> simp_all
    rw [parse_of_meta_err al src true maxSize _ (hh.1 hm rfl)]; rfl

example : (2 ≤ ([0x81, 0x01] : Bytes).length) ∧ (([0x81, 0x01] : Bytes).getD 1 0 &&& 0x80 != 0) ≠ true := by decide

/-- **C14_strict_opcode**: opcodes 3–7 and 11–15 are refused as soon as two bytes are there. -/
theorem C14_strict_opcode (al : Nat) (src : Bytes) (server : Bool) (maxSize : Nat) (h2 : 2 ≤ src.length)
    (hmask : ((src.getD 1 0 &&& 0x80) != 0) = server)
    (hop : (src.getD 0 0 &&& 0x0F).toNat ∉ [0, 1, 2, 8, 9, 10]) :
    (parse al src server maxSize).1 = .err (.invalidOpcode (src.getD 0 0 &&& 0x0F)) := by
  have hh := parseMetadata_head src server h2
  simp only [] at hh
  have hlt : (src.getD 0 0 &&& 0x0F).toNat < 16 := by
    rw [UInt8.toNat_and]
    exact Nat.lt_of_le_of_lt Nat.and_le_right (by decide)
  have hbad : OpCode.ofByte (src.getD 0 0 &&& 0x0F) = .bad := by
    have := (ofByte_bad_iff _ hlt).2 hop
    simpa using this
  rw [parse_of_meta_err al src server maxSize _ (hh.2.2 hmask hbad)]

example : (([0x83, 0x80] : Bytes).getD 1 0 &&& 0x80 != 0) = true ∧
    (([0x83, 0x80] : Bytes).getD 0 0 &&& 0x0F).toNat ∉ [0, 1, 2, 8, 9, 10] := by decide

/-! ## frame.rs: prefix stability -/

/-- **C14_prefix_stable**: an answer other than "need more" is final: more bytes behind the
frame change neither the frame nor the error, and the rest is the old rest plus the new bytes. -/
theorem C14_prefix_stable (al al' : Nat) (a b : Bytes) (server : Bool) (maxSize : Nat)
    (hne : (parse al a server maxSize).1 ≠ .needMore) :
    (parse al' (a ++ b) server maxSize).1 = (parse al a server maxSize).1 ∧
    (∀ f o p, (parse al a server maxSize).1 = .frame f o p →
      (parse al' (a ++ b) server maxSize).2 = (parse al a server maxSize).2 ++ b) :=
  parse_append al al' a b server maxSize hne

example : (parse 0 [0x81, 0x00] false 10).1 ≠ .needMore := by decide +kernel

/-! ## round trip -/

/-- **C14_roundtrip_frame**: whatever `write_message` writes — any opcode, FIN bit, key, payload
of any length (the 125/126 and 65535/65536 encoding boundaries are cases of the proof), any
alignment of either buffer, anything behind it — `parse` at the peer role reads back exactly:
same FIN, same opcode, same payload, and leaves exactly what was behind the frame.
Side conditions: the payload fits `max_size`, control payloads are ≤ 125 (otherwise see
`C14_strict_control_long`), and lengths are < 2^63 (no Rust slice is longer). -/
theorem C14_roundtrip_frame (al al' : Nat) (payload rest : Bytes) (op : OpCode) (fin : Bool) (key : Option Mask)
    (maxSize : Nat) (hop : op ≠ .bad) (hn : payload.length < 2 ^ 63) (hmx : payload.length ≤ maxSize)
    (hctl : op = .ping ∨ op = .pong ∨ op = .close → payload.length ≤ 125) :
    parse al' (writeMessage al payload op fin key ++ rest) key.isSome maxSize =
      (.frame fin op (if payload.length = 0 then none else some payload), rest) :=
  parse_written al al' payload rest op fin key maxSize hop hn hmx hctl

example : ∃ p : Bytes, p.length = 126 ∧ p.length ≤ 65536 := ⟨List.replicate 126 0, by simp, by simp⟩

/-- **C14_roundtrip_message**: a message encoded by a codec of one role decodes at a codec of
the other role (whose read-side flag is in step with the sender's write-side flag) to the same
message, and the two stay in step. -/
theorem C14_roundtrip_message (ce cd : Codec) (al al' : Nat) (key : Mask) (m : Message) (bs rest : Bytes)
    (ce' : Codec) (f : Frame)
    (hl : Linked ce cd) (he : ce.encode al key m = (.ok bs, ce')) (hf : toFrame m = some f)
    (hmx : m.wirePayload.length ≤ cd.maxSize) (hn : m.wirePayload.length < 2 ^ 63)
    (hctl : m.isControl = true → m.wirePayload.length ≤ 125)
    (hcode : ∀ r, m = .close (some r) → r.code < 65536) :
    ∃ cd', cd.decode al' (bs ++ rest) = (.frame f, cd', rest) ∧ Linked ce' cd' :=
  decode_encode ce cd al al' key m bs rest ce' f hl he hf hmx hn hctl hcode

example : Linked { server := false } { server := true } ∧
    (Codec.encode { server := false } 0 ⟨1, 2, 3, 4⟩ (.text [0x68])).1 = .ok [0x81, 0x81, 1, 2, 3, 4, 0x69] :=
  ⟨⟨rfl, rfl⟩, by rfl⟩

/-- **C14_roundtrip**: every sequence of messages offered to a fresh codec of one role — with
any masking keys — is read by a fresh codec of the other role as exactly the accepted messages,
in order, nothing left over; both roles.  (`accepted` leaves out only what `encode` itself
refused: ill-bracketed continuation items.) -/
theorem C14_roundtrip (al al' : Nat) (keys : Nat → Mask) (senderIsServer : Bool) (maxSize : Nat) (msgs : List Message)
    (hok : ∀ m ∈ (encodeSeq al keys { server := senderIsServer } 0 msgs).2.1,
      m.wirePayload.length ≤ maxSize ∧ m.wirePayload.length < 2 ^ 63 ∧
      (m.isControl = true → m.wirePayload.length ≤ 125) ∧ (∀ r, m = .close (some r) → r.code < 65536)) :
    ∃ cd', drain { server := !senderIsServer, maxSize := maxSize } al' (encodeSeq al keys { server := senderIsServer } 0 msgs).1 =
      ((encodeSeq al keys { server := senderIsServer } 0 msgs).2.1.filterMap toFrame, .needMore, cd', []) :=
  let ⟨cd', h, _, _⟩ := roundtrip_seq al al' keys { server := senderIsServer } { server := !senderIsServer, maxSize := maxSize }
    0 msgs ⟨rfl, rfl⟩ hok
  ⟨cd', h⟩

/-! ## the parser accepts exactly the frame grammar

`Wire` / `Wire.bytes` (`Proofs/WsGrammar.lean`) write RFC 6455 §5.2 down independently of the
parser: FIN, RSV1-3, opcode nibble | MASK, 7-bit code | 0, 2 or 8 extension bytes | key | masked
payload; any of the three length forms that can hold the length (`Wire.Valid`). -/

/-- **C14_grammar_complete**: what `parse` answers on *every* frame of the grammar followed by
anything — whatever the RSV bits, whichever admissible length form, any key: too long for
`max_size` ⇒ `Overflow`; Ping/Pong > 125 ⇒ `InvalidLength`; Close > 125 ⇒ bare Close (O3);
otherwise exactly the frame's FIN, opcode and payload, leaving exactly what followed.
(`C14_roundtrip_frame` is the special case of the frames `write_message` produces.) -/
theorem C14_grammar_complete (al : Nat) (w : Wire) (hv : w.Valid) (rest : Bytes) (maxSize : Nat)
    (hop : OpCode.ofByte (UInt8.ofNat w.opc) ≠ .bad) (hn : w.payload.length < 2 ^ 63) :
    parse al (w.bytes ++ rest) w.key.isSome maxSize =
      let op := OpCode.ofByte (UInt8.ofNat w.opc)
      if w.payload.length > maxSize then (.err .overflow, rest)
      else if w.payload.length = 0 then (.frame w.fin op none, rest)
      else if (op = .ping ∨ op = .pong) ∧ w.payload.length > 125 then (.err (.invalidLength w.payload.length), rest)
      else if op = .close ∧ w.payload.length > 125 then (.frame true .close none, rest)
      else (.frame w.fin op (some w.payload), rest) :=
  parse_wire al w hv rest maxSize hop hn

example : (⟨true, 5, 1, some ⟨1, 2, 3, 4⟩, .ext64, [0x68, 0x69]⟩ : Wire).Valid := by
  refine ⟨by decide, by decide, ?_⟩; simp [LenForm.fits]

/-- **C14_grammar_sound**: whatever `parse` delivers was, byte for byte, a frame of the grammar
at the head of the buffer — masked iff the receiver is a server, with one of the six defined
opcodes, payload within `max_size` — and the rest is what followed it.  With
`C14_grammar_complete` (which fixes the delivered FIN / opcode / payload as a function of that
frame): the parser accepts exactly the grammar and reads each frame in exactly one way. -/
theorem C14_grammar_sound (al : Nat) (src : Bytes) (server : Bool) (maxSize : Nat) (fin : Bool) (op : OpCode)
    (pl : Option Bytes) (rest : Bytes) (h : parse al src server maxSize = (.frame fin op pl, rest)) :
    ∃ w : Wire, w.Valid ∧ src = w.bytes ++ rest ∧ w.key.isSome = server ∧
      OpCode.ofByte (UInt8.ofNat w.opc) ≠ .bad ∧ w.payload.length ≤ maxSize :=
  parse_sound al src server maxSize fin op pl rest h

/-! ## segmentation independence -/

/-- **C14_segmentation**: however a byte stream is cut into reads (any number of segments, empty
ones included, any buffer placement), a fresh connection delivers the same frames, ends in the
same error or — if alive — with the same flags and the same undecoded rest as when the whole
stream arrives in one read. -/
theorem C14_segmentation (c : Codec) (al al' : Nat) (segs : List Bytes) :
    Sim (Conn.feedAll { codec := c } al segs) (Conn.feed { codec := c } al' segs.flatten) :=
  feedAll_eq_feed { codec := c } al al' segs (quiescent_init c)

/-- the same for two arbitrary segmentations of the same bytes -/
theorem C14_segmentation_any (c : Codec) (al al' : Nat) (segs segs' : List Bytes) (h : segs.flatten = segs'.flatten) :
    (Conn.feedAll { codec := c } al segs).1 = (Conn.feedAll { codec := c } al' segs').1 ∧
    (Conn.feedAll { codec := c } al segs).2.dead = (Conn.feedAll { codec := c } al' segs').2.dead := by
  have h1 := C14_segmentation c al 0 segs
  have h2 := C14_segmentation c al' 0 segs'
  rw [h] at h1
  exact ⟨h1.1.trans h2.1.symm, h1.2.1.trans h2.2.1.symm⟩

/-! ## codec.rs: the continuation state machine -/

/-- **C14_strict_control_fragmented**: a control frame with FIN = 0 is refused. -/
theorem C14_strict_control_fragmented (c : Codec) (al : Nat) (src rest : Bytes) (op : OpCode) (pl : Option Bytes)
    (hp : parse al src c.server c.maxSize = (.frame false op pl, rest))
    (hop : op = .close ∨ op = .ping ∨ op = .pong) :
    (c.decode al src).1 = .err (.continuationFragment op) := by
  unfold Codec.decode; rw [hp]; unfold Codec.onFrame
  rcases hop with h | h | h <;> subst h <;> rfl

example : parse 0 [0x09, 0x00] false 10 = (.frame false .ping none, []) := by decide

/-- **C14_strict_control_long**: a complete Ping/Pong longer than 125 bytes (and within
`max_size`) is refused; a complete Close longer than 125 bytes is delivered as a bare
`Close(None)` with FIN forced — as coded (DESIGN §6 O3), stated here so that it is visible. -/
theorem C14_strict_control_long (al : Nat) (src : Bytes) (server : Bool) (maxSize : Nat) (m : Meta)
    (hm : parseMetadata src server = .ok m) (hfit : m.idx + m.length ≤ src.length) (hsz : src.length < 2 ^ 63)
    (hlong : 125 < m.length) (hmx : m.length ≤ maxSize) :
    ((m.op = .ping ∨ m.op = .pong) → (parse al src server maxSize).1 = .err (.invalidLength m.length)) ∧
    (m.op = .close → (parse al src server maxSize).1 = .frame true .close none) := by
  have hb := parseMetadata_ok_bounds src server m hm
  rw [parse_of_meta al src server maxSize m hm]
  have c1 : ¬ usizeMax < m.idx + m.length := by
    unfold usizeMax; omega
  have c2 : ¬ src.length < m.idx + m.length := by omega
  have c3 : ¬ m.length > maxSize := by omega
  have c4 : ¬ m.length = 0 := by omega
  simp only [c1, c2, c3, c4, if_false]
  constructor
  · intro h; simp [h, hlong]
  · intro h; simp [h, hlong]

example : ∃ m, parseMetadata ([0x89, 126, 0, 126] ++ List.replicate 126 0) false = .ok m ∧ m.op = .ping ∧ 125 < m.length ∧
    m.idx + m.length ≤ ([0x89, 126, 0, 126] ++ List.replicate 126 (0 : UInt8)).length :=
  ⟨⟨4, true, .ping, 126, none⟩, by decide +kernel, rfl, by decide, by decide +kernel⟩

/-- **C14_strict_cont_without_start**: a Continue frame (final or not) outside a fragmented
message is refused. -/
theorem C14_strict_cont_without_start (c : Codec) (al : Nat) (src rest : Bytes) (fin : Bool) (pl : Option Bytes)
    (hp : parse al src c.server c.maxSize = (.frame fin .continue pl, rest)) (hc : c.cont = false) :
    (c.decode al src).1 = .err .continuationNotStarted := by
  unfold Codec.decode; rw [hp]; unfold Codec.onFrame
  cases fin <;> simp [hc]

example : parse 0 [0x80, 0x00] false 10 = (.frame true .continue none, []) := by decide +kernel

/-- **C14_strict_start_inside**: a non-final Text/Binary frame inside a fragmented message is
refused.  (A *final* Text/Binary frame there is delivered as an ordinary message: interleaved
unfragmented data frames are accepted by the code; reported, DESIGN C14 P.) -/
theorem C14_strict_start_inside (c : Codec) (al : Nat) (src rest : Bytes) (op : OpCode) (pl : Option Bytes)
    (hp : parse al src c.server c.maxSize = (.frame false op pl, rest)) (hc : c.cont = true)
    (hop : op = .text ∨ op = .binary) :
    (c.decode al src).1 = .err .continuationStarted := by
  unfold Codec.decode; rw [hp]; unfold Codec.onFrame
  rcases hop with h | h <;> subst h <;> simp [hc]

example : parse 0 [0x01, 0x01, 0x61] false 10 = (.frame false .text (some [0x61]), []) := by decide +kernel

/-- O3 (DESIGN §6), kernel-checked on the model: a Close frame with a 126-byte payload is not
refused but delivered as `Close(None)`. -/
theorem witness_O3_close_long_morphs :
    (Codec.decode { server := false } 0 ([0x88, 126, 0, 126] ++ List.replicate 126 0x41)).1 = .frame (.close none) := by
  decide +kernel

/-- kernel-checked on the model: inside a fragmented message (CONTINUATION set) a *final* Text
frame is delivered as an ordinary message and the flag stays set (interleaved unfragmented data
frames are accepted; DESIGN C14 P). -/
theorem witness_unfragmented_inside_fragmented :
    Codec.decode { server := false, cont := true } 0 [0x81, 0x01, 0x78] =
      (.frame (.text [0x78]), { server := false, cont := true }, []) := by
  decide +kernel

/-- kernel-checked on the model: the F4 replay (server role, 14-byte header announcing 2^40 bytes,
`max_size` 1024, no payload) is refused at once. -/
theorem witness_F4_refused :
    parse 0 [0x82, 0xff, 0, 0, 1, 0, 0, 0, 0, 0, 1, 2, 3, 4] true 1024 =
      (.err .overflow, [0x82, 0xff, 0, 0, 1, 0, 0, 0, 0, 0, 1, 2, 3, 4]) := by
  decide +kernel

/-- **C14_cont_bracketed**: over *every* byte stream and every segmentation, the delivered
frames are well bracketed — `First… (Continue…)* Last` never nested, never a `Continue`/`Last`
outside — the codec's CONTINUATION flag is exactly "inside a fragmented message", role and
`max_size` never change, and no delivered payload exceeds `max_size`. -/
theorem C14_cont_bracketed (c : Codec) (al : Nat) (segs : List Bytes) :
    bracket c.cont (Conn.feedAll { codec := c } al segs).1 = some (Conn.feedAll { codec := c } al segs).2.codec.cont ∧
    (∀ f ∈ (Conn.feedAll { codec := c } al segs).1, f.dataLen ≤ c.maxSize) := by
  have key : ∀ (segs : List Bytes) (s : Conn),
      bracket s.codec.cont (Conn.feedAll s al segs).1 = some (Conn.feedAll s al segs).2.codec.cont ∧
      (Conn.feedAll s al segs).2.codec.maxSize = s.codec.maxSize ∧
      (∀ f ∈ (Conn.feedAll s al segs).1, f.dataLen ≤ s.codec.maxSize) := by
    intro segs
    induction segs with
    | nil => intro s; simp [Conn.feedAll, bracket]
    | cons x xs ih =>
      intro s
      simp only [Conn.feedAll]
      have IH := ih (s.feed al x).2
      cases hd : s.dead with
      | some e =>
        rw [feed_dead s al x e hd] at IH ⊢
        simpa using IH
      | none =>
        rw [feed_live s al x hd] at IH ⊢
        have D := drain_inv s.codec 0 (s.buf ++ x)
        simp only [] at IH ⊢
        refine ⟨?_, by rw [IH.2.1, D.2.1], ?_⟩
        · rw [bracket_append, D.2.2.2.1]; exact IH.1
        · intro f hf
          rcases List.mem_append.1 hf with h | h
          · exact D.2.2.2.2 f h
          · have := IH.2.2 f h; rw [D.2.1] at this; exact this
  have := key segs { codec := c }
  exact ⟨this.1, this.2.2⟩

/-- **C14_encode_bracketed**: on the write side too: whatever message sequence the application
offers, the frames that go out are well bracketed, and W_CONTINUATION is exactly "inside". -/
theorem C14_encode_bracketed (al : Nat) (keys : Nat → Mask) (ce : Codec) (msgs : List Message) :
    bracket ce.wcont ((encodeSeq al keys ce 0 msgs).2.1.filterMap toFrame) = some (encodeSeq al keys ce 0 msgs).2.2.wcont :=
  encodeSeq_bracket al keys ce 0 msgs

/-- **C14_progress**: a delivered frame consumes at least its two header bytes, and "need
more" consumes nothing — the read loop terminates and its guard never fires. -/
theorem C14_progress (c : Codec) (al : Nat) (src : Bytes) (c' : Codec) (rest : Bytes) :
    (∀ f, c.decode al src = (.frame f, c', rest) → rest.length + 2 ≤ src.length) ∧
    (c.decode al src = (.needMore, c', rest) → c' = c ∧ rest = src) :=
  ⟨fun f h => decode_frame_lt c al src f c' rest h, fun h => decode_needMore c al src c' rest h⟩

end ActixModel.Ws.C14

/-! ## handshake -/
namespace ActixModel.WsHandshake.C14
open ActixModel.Util ActixModel.WsHandshake

/-- "well-formed upgrade request" as the code reads it: GET; the first `Upgrade` value is visible
ASCII and contains `websocket` case-insensitively; the first `Connection` value likewise contains
`upgrade`; the first `Sec-WebSocket-Version` value is `13`, `8` or `7`; a `Sec-WebSocket-Key`
header is present.  (Laxer than RFC 6455 §4.2.1 — substring instead of token match, versions 8/7,
any key; DESIGN §6 O4.) -/
def WellFormed (req : Req) : Prop :=
  req.method = "GET" ∧
  (∃ v, getFirst "upgrade" req.headers = some v ∧ toStrOk v = true ∧ bWebsocket <:+: v.map asciiLower) ∧
  (∃ v, getFirst "connection" req.headers = some v ∧ toStrOk v = true ∧ bUpgrade <:+: v.map asciiLower) ∧
  (∃ v, getFirst "sec-websocket-version" req.headers = some v ∧ (v = b13 ∨ v = b8 ∨ v = b7)) ∧
  (∃ v, getFirst "sec-websocket-key" req.headers = some v)

/-- **C14_handshake_iff**: the handshake is accepted exactly for well-formed upgrade requests. -/
theorem C14_handshake_iff (req : Req) : verifyHandshake req = none ↔ WellFormed req := by
  unfold verifyHandshake WellFormed connUpgrade containsKey valueContains
  by_cases hm : req.method = "GET"
  · simp only [hm, ne_eq, not_true_eq_false, if_false, true_and]
    cases hu : getFirst "upgrade" req.headers with
    | none => simp
    | some u =>
      cases hc : getFirst "connection" req.headers with
      | none => simp; split <;> simp
      | some cv =>
        cases hv : getFirst "sec-websocket-version" req.headers with
        | none => simp; repeat' split
                  all_goals simp
        | some vv =>
          cases hk : getFirst "sec-websocket-key" req.headers with
          | none => simp; repeat' split
                    all_goals simp
          | some kv =>
            simp only [Option.some.injEq, exists_eq_left', Option.isSome_some, Bool.not_true, Bool.false_eq_true,
              if_false, exists_const, and_true]
            by_cases h1 : (toStrOk u && containsSub bWebsocket (u.map asciiLower)) = true
            · by_cases h2 : (toStrOk cv && containsSub bUpgrade (cv.map asciiLower)) = true
              · by_cases h3 : (vv == b13 || vv == b8 || vv == b7) = true
                · have h1' := h1; have h2' := h2; have h3' := h3
                  simp only [Bool.and_eq_true, containsSub_iff] at h1' h2'
                  simp only [Bool.or_eq_true, beq_iff_eq] at h3'
                  simp only [h1, h2, h3, Bool.not_true, Bool.false_eq_true, if_false, true_iff]
                  exact ⟨h1', h2', by rcases h3' with (h | h) | h <;> simp [h]⟩
                · have h3' := h3
                  simp only [Bool.or_eq_true, beq_iff_eq, not_or] at h3'
                  simp only [h1, h2, h3, Bool.not_true, Bool.not_false, Bool.false_eq_true, if_false, if_true]
                  simp only [reduceCtorEq, false_iff, not_and]
                  intro _ _ h; rcases h with h | h | h <;> simp_all
              · have h2' := h2
                simp only [Bool.and_eq_true, containsSub_iff] at h2'
                simp only [h1, h2, Bool.not_true, Bool.not_false, Bool.false_eq_true, if_false, if_true]
                simp only [reduceCtorEq, false_iff, not_and]
                intro _ h; exact absurd h h2'
            · have h1' := h1
              simp only [Bool.and_eq_true, containsSub_iff] at h1'
              simp only [h1, Bool.not_false, if_true]
              simp only [reduceCtorEq, false_iff, not_and]
              intro h; exact absurd h h1'
  · simp [hm]

/-- O4 (DESIGN §6), kernel-checked on the model: this request is accepted although its
`Upgrade`/`Connection` values are not the tokens `websocket`/`upgrade`, its version is 7 and its
key is empty. -/
theorem witness_O4_lenient_handshake :
    verifyHandshake ⟨"GET", [("upgrade", [120] ++ bWebsocket ++ [120]),
      ("connection", [110, 111, 116] ++ bUpgrade ++ [97, 98, 108, 101]),
      ("sec-websocket-version", [55]), ("sec-websocket-key", [])]⟩ = none := by decide

/-- **C14_handshake_order**: the refusals come in the coded order — each error is returned
exactly when all earlier checks pass and its own fails. -/
theorem C14_handshake_order (req : Req) :
    (verifyHandshake req = some .getMethodRequired ↔ req.method ≠ "GET") ∧
    (verifyHandshake req = some .badWebsocketKey →
      req.method = "GET" ∧ containsKey "sec-websocket-version" req.headers = true ∧
      containsKey "sec-websocket-key" req.headers = false) := by
  unfold verifyHandshake
  constructor
  · by_cases hm : req.method = "GET"
    · simp only [hm, ne_eq, not_true_eq_false, if_false, iff_false]
      repeat' split
      all_goals simp
    · simp [hm]
  · by_cases hm : req.method = "GET"
    · simp only [hm, ne_eq, not_true_eq_false, if_false, true_and]
      repeat' split
      all_goals simp_all
    · simp [hm]

/-- **C14_handshake_accept**: an accepted handshake is answered with status 101, `Upgrade:
websocket`, connection type upgrade, and `Sec-WebSocket-Accept = base64(sha1(key ++ GUID))` of the
first key value — always 28 characters. -/
theorem C14_handshake_accept (req : Req) (r : Resp) (h : handshake req = .ok r) :
    verifyHandshake req = none ∧ r.status = 101 ∧ r.upgrade = "websocket" ∧ r.connectionUpgrade = true ∧
    r.accept = b64Encode (sha1 ((getFirst "sec-websocket-key" req.headers).getD [] ++ wsGuid)) ∧
    r.accept.length = 28 := by
  unfold handshake at h
  cases hv : verifyHandshake req with
  | some e => rw [hv] at h; simp at h
  | none =>
    rw [hv] at h
    simp only [Except.ok.injEq] at h
    subst h
    exact ⟨rfl, rfl, rfl, rfl, rfl, hashKey_length _⟩

example : (handshake ⟨"GET", [("upgrade", bWebsocket), ("connection", bUpgrade), ("sec-websocket-version", b13),
    ("sec-websocket-key", [97])]⟩).toBool = true := by decide +kernel

/-- **C14_base64_roundtrip**: the Base64 used for the accept key is injective — a strict decoder
recovers the 20 hash bytes (and any other byte string) from it. -/
theorem C14_base64_roundtrip (bs : Bytes) : b64Decode (b64Encode bs) = some bs := b64_roundtrip bs

/-- RFC 6455 §1.3 sample key, evaluated by the kernel on the model's SHA-1 + Base64. -/
theorem witness_rfc6455_sample_accept :
    hashKey [100, 71, 104, 108, 73, 72, 78, 104, 98, 88, 66, 115, 90, 83, 66, 117, 98, 50, 53, 106, 90, 81, 61, 61] =
      [115, 51, 112, 80, 76, 77, 66, 105, 84, 120, 97, 81, 57, 107, 89, 71, 122, 122, 104, 90, 82, 98, 75, 43, 120, 79, 111, 61] := by
  decide +kernel

end ActixModel.WsHandshake.C14
