import ActixModel.Proofs.Ws
/-
C14 — WebSocket handshake and frame codec: round trip, segmentation independence, strictness.

Model: `ActixModel/Model/Ws.lean` (proto.rs, mask.rs, frame.rs, codec.rs as coded, after the F4
fix) and `ActixModel/Model/WsHandshake.lean`.  Every theorem quantifies over all buffers / keys /
payloads / alignments / `max_size` values; nothing is bounded.
-/
namespace ActixModel.Ws.C14
open ActixModel.Util ActixModel.Ws

/-! ## mask.rs -/

/-- **C14_mask_fast_eq**: for every address alignment of the buffer (all of `align_to_mut`'s
prefix / words / suffix splits), every key and every buffer, the word-at-a-time path computes
what the byte-at-a-time path computes. -/
theorem C14_mask_fast_eq (align : Nat) (buf : Bytes) (key : Mask) :
    applyMaskFast32 align buf key = applyMaskFallback buf key :=
  applyMaskFast32_eq align buf key

/-- **C14_mask_involution**: unmasking undoes masking, whatever the two buffers' alignments. -/
theorem C14_mask_involution (al al' : Nat) (buf : Bytes) (key : Mask) :
    applyMask al' (applyMask al buf key) key = buf ∧ (applyMask al buf key).length = buf.length :=
  ⟨applyMask_involutive al al' buf key, applyMask_length al buf key⟩

/-! ## frame.rs: limits -/

/-- **C14_refuse_unbuffered**: as soon as the header is complete (`parse_metadata` succeeded) a
frame announcing more than `max_size` is refused — however little of its payload has arrived.
(False before the `fix:` commit: the code answered `Ok(None)` until the whole payload was
buffered; DESIGN §6 F4.) -/
theorem C14_refuse_unbuffered (al : Nat) (src : Bytes) (server : Bool) (maxSize : Nat) (m : Meta)
    (hm : parseMetadata src server = .ok m) (hbig : m.length > maxSize) :
    (parse al src server maxSize).1 = .err .overflow := by
  rw [parse_of_meta al src server maxSize m hm]
  repeat' split
  all_goals first | rfl | omega

example : ∃ src m, parseMetadata src true = .ok m ∧ m.length > 1024 ∧ src.length < m.idx + m.length :=
  ⟨[0x82, 0xff, 0, 0, 1, 0, 0, 0, 0, 0, 1, 2, 3, 4], ⟨14, true, .binary, 2 ^ 40, some ⟨1, 2, 3, 4⟩⟩, by decide, by decide, by decide⟩

/-- **C14_max_size**: a delivered payload is never longer than `max_size` (and `Some` payloads are
never empty). -/
theorem C14_max_size (al : Nat) (src : Bytes) (server : Bool) (maxSize : Nat)
    (fin : Bool) (op : OpCode) (pl rest : Bytes)
    (h : parse al src server maxSize = (.frame fin op (some pl), rest)) :
    pl.length ≤ maxSize ∧ pl.length ≠ 0 := by
  obtain ⟨m, hm, hle, _, hmx, hp⟩ := parse_frame_rest al src server maxSize fin op (some pl) rest h
  rcases hp with hp | ⟨hp, h0⟩
  · simp at hp
  · have : pl = payloadOf src m := Option.some.inj hp
    have hl : pl.length = m.length := by
      rw [this]; unfold payloadOf
      cases m.mask <;> simp <;> omega
    omega

/-! ## frame.rs: strictness decided by the first two bytes -/

/-- **C14_strict_masking**: a frame whose MASK bit does not fit the receiving role is refused as
soon as two bytes are there: unmasked at a server, masked at a client. -/
theorem C14_strict_masking (al : Nat) (src : Bytes) (server : Bool) (maxSize : Nat) (h2 : 2 ≤ src.length)
    (hwrong : ((src.getD 1 0 &&& 0x80) != 0) ≠ server) :
    (parse al src server maxSize).1 = .err (if server then .unmaskedFrame else .maskedFrame) := by
  have hh := parseMetadata_head src server h2
  simp only [] at hh
  cases server
  · have hm : ((src.getD 1 0 &&& 0x80) != 0) = true := by
      cases h : ((src.getD 1 0 &&& 0x80) != 0) <;> simp_all
    rw [parse_of_meta_err al src false maxSize _ (hh.2.1 hm rfl)]; rfl
  · have hm : ((src.getD 1 0 &&& 0x80) != 0) = false := by
      cases h : ((src.getD 1 0 &&& 0x80) != 0) <;> simp_all
    rw [parse_of_meta_err al src true maxSize _ (hh.1 hm rfl)]; rfl

/-- **C14_strict_opcode**: opcodes 3–7 and 11–15 are refused as soon as two bytes are there. -/
theorem C14_strict_opcode (al : Nat) (src : Bytes) (server : Bool) (maxSize : Nat) (h2 : 2 ≤ src.length)
    (hmask : ((src.getD 1 0 &&& 0x80) != 0) = server)
    (hop : (src.getD 0 0 &&& 0x0F).toNat ∉ [0, 1, 2, 8, 9, 10]) :
    (parse al src server maxSize).1 = .err (.invalidOpcode (src.getD 0 0 &&& 0x0F)) := by
  have hh := parseMetadata_head src server h2
  simp only [] at hh
  have hlt : (src.getD 0 0 &&& 0x0F).toNat < 16 := by
    rw [UInt8.toNat_and]
    exact Nat.lt_of_le_of_lt Nat.and_le_right (by decide)
  have hbad : OpCode.ofByte (src.getD 0 0 &&& 0x0F) = .bad := by
    have := (ofByte_bad_iff _ hlt).2 hop
    simpa using this
  rw [parse_of_meta_err al src server maxSize _ (hh.2.2 hmask hbad)]

/-! ## frame.rs: prefix stability -/

/-- **C14_prefix_stable**: an answer other than "need more" is final: more bytes behind the
frame change neither the frame nor the error, and the rest is the old rest plus the new bytes. -/
theorem C14_prefix_stable (al al' : Nat) (a b : Bytes) (server : Bool) (maxSize : Nat)
    (hne : (parse al a server maxSize).1 ≠ .needMore) :
    (parse al' (a ++ b) server maxSize).1 = (parse al a server maxSize).1 ∧
    (∀ f o p, (parse al a server maxSize).1 = .frame f o p →
      (parse al' (a ++ b) server maxSize).2 = (parse al a server maxSize).2 ++ b) :=
  parse_append al al' a b server maxSize hne

end ActixModel.Ws.C14
