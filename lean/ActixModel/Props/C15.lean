import ActixModel.Proofs.Multipart
/-
C15 — multipart parsing is exact, segmentation-independent, terminating and buffer-bounded.
Model: `ActixModel/Model/Multipart.lean`; helper lemmas: `ActixModel/Proofs/Multipart.lean`.
-/
namespace ActixModel.Props.C15
open ActixModel.Util ActixModel.Multipart

/-- body `--B CRLF CRLF d CRLF` … : one header-less part with content `d` -/
def wBody (tail : Bytes) : Bytes := [45, 45, 66, 13, 10, 13, 10, 100, 13, 10] ++ tail

/-- events of a run, oldest first -/
def events (s : Sys) : List Ev := s.trace.reverse.map (·.1)

/-! ## buffer bound -/

/-- **C15_buffer_bound.** For every variant of the code (`cfg`), every boundary, limit, consumer plan,
chunk script and every number of steps: the parser buffer never holds more than `limit` bytes.
(`run … fuel` is the state after `fuel` consumer polls, so this covers every intermediate state.) -/
theorem C15_buffer_bound (cfg : Cfg) (boundary : Bytes) (form : Bool) (limit : Nat)
    (plans : List (Option Nat)) (script : List Tok) (fuel : Nat) :
    (run cfg fuel (initSys boundary form limit plans script)).inner.pb.buf.length ≤ limit := by
  have h0 : SysInv (initSys boundary form limit plans script) := ⟨by simp [initSys], by simp [initSys]⟩
  obtain ⟨h1, h2⟩ := run_inv cfg fuel _ h0
  have := h1.bound
  rw [h2] at this
  simpa [initSys] using this

/-- the bound is not vacuous: a 12-byte chunk against a limit of 4 leaves exactly 4 bytes buffered -/
example : (run Cfg.fixed 1 (initSys [66] false 4 [] [.chunk (wBody [45, 45])])).inner.pb.buf.length = 4 := by
  decide

/-! ## termination: no lost wake-up -/

/-- **C15_no_hang.** Under the repaired code no script, limit or consumer plan makes the task return
`Pending` without a wake-up on record: the executor never reports `HANG`. -/
theorem C15_no_hang (boundary : Bytes) (form : Bool) (limit : Nat) (plans : List (Option Nat))
    (script : List Tok) (fuel : Nat) :
    Ev.hang ∉ events (run Cfg.fixed fuel (initSys boundary form limit plans script)) := by
  have h0 : SysInv (initSys boundary form limit plans script) := ⟨by simp [initSys], by simp [initSys]⟩
  have hm : ModeInv (initSys boundary form limit plans script) := by
    intro l hl; simp [initSys] at hl
  have hn : NoHang (initSys boundary form limit plans script) := by
    intro e he; simp [initSys] at he
  have := run_noHang Cfg.fixed rfl rfl fuel _ h0 hm hn
  intro hmem
  simp only [events, List.mem_map, List.mem_reverse] at hmem
  obtain ⟨x, hx, hxe⟩ := hmem
  exact this x hx hxe

/-- F6 (code at the pinned commit): body cut after `d CR LF`, then end of stream ⇒ HANG -/
theorem witness_F6_truncated_body_hangs :
    events (run { Cfg.fixed with f6 := false } 8 (initSys [66] false 64 [] [.chunk (wBody [])]))
      = [.field ⟨[], none⟩, .data [100], .hang] := by
  decide

/-- the same input under the repaired code ends with `Incomplete` -/
theorem C15_F6_fixed :
    events (run Cfg.fixed 8 (initSys [66] false 64 [] [.chunk (wBody [])]))
      = [.field ⟨[], none⟩, .data [100], .fail .incomplete] := by
  decide

end ActixModel.Props.C15
