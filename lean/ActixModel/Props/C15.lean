import ActixModel.Proofs.Multipart
import ActixModel.Proofs.MultipartScan
import ActixModel.Proofs.MultipartTerm
import ActixModel.Proofs.MultipartStable
/-
C15 — multipart parsing is exact, segmentation-independent, terminating and buffer-bounded.
Model: `ActixModel/Model/Multipart.lean`; helper lemmas: `ActixModel/Proofs/Multipart.lean`.
-/
namespace ActixModel.Props.C15
open ActixModel.Util ActixModel.Multipart

/-- body `--B CRLF CRLF d CRLF` … : one header-less part with content `d` -/
def wBody (tail : Bytes) : Bytes := [45, 45, 66, 13, 10, 13, 10, 100, 13, 10] ++ tail

/-- events of a run, oldest first -/
def events (s : Sys) : List Ev := s.trace.reverse.map (·.1)

/-! ## buffer bound -/

/-- **C15_buffer_bound.** For every variant of the code (`cfg`), every boundary, limit, consumer plan,
chunk script and every number of steps: the parser buffer never holds more than `limit` bytes.
(`run … fuel` is the state after `fuel` consumer polls, so this covers every intermediate state.) -/
theorem C15_buffer_bound (cfg : Cfg) (boundary : Bytes) (form : Bool) (limit : Nat)
    (plans : List (Option Nat)) (script : List Tok) (fuel : Nat) :
    (run cfg fuel (initSys boundary form limit plans script)).inner.pb.buf.length ≤ limit := by
  have h0 : SysInv (initSys boundary form limit plans script) := ⟨by simp [initSys], by simp [initSys]⟩
  obtain ⟨h1, h2⟩ := run_inv cfg fuel _ h0
  have := h1.bound
  rw [h2] at this
  simpa [initSys] using this

/-- the bound is not vacuous: a 12-byte chunk against a limit of 4 leaves exactly 4 bytes buffered -/
example : (run Cfg.fixed 1 (initSys [66] false 4 [] [.chunk (wBody [45, 45])])).inner.pb.buf.length = 4 := by
  decide

/-! ## termination: no lost wake-up -/

/-- **C15_no_hang.** Under the repaired code no script, limit or consumer plan makes the task return
`Pending` without a wake-up on record: the executor never reports `HANG`. -/
theorem C15_no_hang (boundary : Bytes) (form : Bool) (limit : Nat) (plans : List (Option Nat))
    (script : List Tok) (fuel : Nat) :
    Ev.hang ∉ events (run Cfg.fixed fuel (initSys boundary form limit plans script)) := by
  have h0 : SysInv (initSys boundary form limit plans script) := ⟨by simp [initSys], by simp [initSys]⟩
  have hm : ModeInv (initSys boundary form limit plans script) := by
    intro l hl; simp [initSys] at hl
  have hn : NoHang (initSys boundary form limit plans script) := by
    intro e he; simp [initSys] at he
  have := run_noHang Cfg.fixed rfl rfl fuel _ h0 hm hn
  intro hmem
  simp only [events, List.mem_map, List.mem_reverse] at hmem
  obtain ⟨x, hx, hxe⟩ := hmem
  exact this x hx hxe

/-- **C15_terminates.** Every run is over after at most `fuelFor script` consumer polls
(`8·(bytes + script items) + 8`): each poll that does not end the run strictly decreases a measure of
the bytes still in the script / kept back / buffered, the script items, the consumer's mode and the
recorded wake-up. No livelock: the task cannot keep waking itself for ever. -/
theorem C15_terminates (boundary : Bytes) (form : Bool) (limit : Nat) (plans : List (Option Nat))
    (script : List Tok) :
    (run Cfg.fixed (fuelFor script) (initSys boundary form limit plans script)).finished = true :=
  run_finishes Cfg.fixed rfl rfl _ _ (muSys_init boundary form limit plans script)

/-- **C15_decides.** Every body — well-formed, malformed, truncated anywhere, cut anywhere, with any
Pendings and empty chunks, under any buffer limit and consumer plan — ends in a decision: the last
event is `EOF` or an error. (`C15_terminates` + `C15_no_hang`.) -/
theorem C15_decides (boundary : Bytes) (form : Bool) (limit : Nat) (plans : List (Option Nat))
    (script : List Tok) :
    ∃ evs last, events (run Cfg.fixed (fuelFor script) (initSys boundary form limit plans script)) = evs ++ [last]
      ∧ (last = .eof ∨ ∃ e, last = .fail e) := by
  have hfin := C15_terminates boundary form limit plans script
  have hnh := C15_no_hang boundary form limit plans script (fuelFor script)
  obtain ⟨e, k, rest, ht, hterm⟩ := run_terminal Cfg.fixed (fuelFor script) _ (by simp [initSys]) hfin
  refine ⟨(rest.reverse.map (·.1)), e, by simp [events, ht], ?_⟩
  rcases hterm with h | h | h
  · exact Or.inl h
  · exfalso
    apply hnh
    simp [events, ht, h]
  · exact Or.inr h

/-- F6 (code at the pinned commit): body cut after `d CR LF`, then end of stream ⇒ HANG -/
theorem witness_F6_truncated_body_hangs :
    events (run { Cfg.fixed with f6 := false } 8 (initSys [66] false 64 [] [.chunk (wBody [])]))
      = [.field ⟨[], none⟩, .data [100], .hang] := by
  decide

/-- the same input under the repaired code ends with `Incomplete` -/
theorem C15_F6_fixed :
    events (run Cfg.fixed 8 (initSys [66] false 64 [] [.chunk (wBody [])]))
      = [.field ⟨[], none⟩, .data [100], .fail .incomplete] := by
  decide


/-! ## exactness of the delimiter scanner (`InnerField::read_stream`)

`delim b = CR LF - - b`; `splitDelim b bs` is the grammar-level split of the bytes after a part's
header block: `some (content, rest)` with `rest` starting at the first delimiter, `none` if there
is none. -/

/-- **C15_scan_content.** Whatever `read_stream` hands out as content lies in front of the first
delimiter of the input — for every buffer, every end-of-stream flag and *every continuation* `ext`
of the buffer (i.e. wherever the body was cut). No byte of a delimiter is ever delivered as content,
and at least one byte is delivered. -/
theorem C15_scan_content (b buf ext : Bytes) (eof : Bool) (n : Nat)
    (h : readStream Cfg.fixed buf eof b = .data n) :
    0 < n ∧ n ≤ buf.length ∧
      splitDelim b (buf ++ ext) =
        (splitDelim b (buf.drop n ++ ext)).map (fun cr => (buf.take n ++ cr.1, cr.2)) := by
  obtain ⟨h0, h1, h2⟩ := readStream_data (cfg := Cfg.fixed) rfl rfl h ext
  refine ⟨h0, h1, ?_⟩
  have := splitDelim_skip n (buf ++ ext) (by simp; omega) h2
  rwa [List.drop_append_of_le_length h1, List.take_append_of_le_length h1] at this

/-- the hypothesis of `C15_scan_content` is met by a non-trivial buffer: content ending in CR LF
with the delimiter still incomplete -/
example : readStream Cfg.fixed [100, 13, 10, 13, 10, 45, 45] false [66] = .data 3 := by decide

/-- **C15_scan_end.** `read_stream` ends a field only where a complete delimiter starts. -/
theorem C15_scan_end (b buf : Bytes) (eof : Bool) (h : readStream Cfg.fixed buf eof b = .fin) :
    splitDelim b buf = some ([], buf) :=
  splitDelim_here (readStream_fin (cfg := Cfg.fixed) rfl h)

example : readStream Cfg.fixed [13, 10, 45, 45, 66, 45, 45] false [66] = .fin := by decide

/-- **C15_scan_error.** `read_stream` fails only at the end of the stream, with `Incomplete`, and only
when no delimiter occurs in what is left (a truncated body). -/
theorem C15_scan_error (b buf : Bytes) (eof : Bool) (e : Err)
    (h : readStream Cfg.fixed buf eof b = .fail e) :
    eof = true ∧ e = .incomplete ∧ splitDelim b buf = none :=
  readStream_fail (cfg := Cfg.fixed) rfl h

example : readStream Cfg.fixed [13, 10, 45] true [66] = .fail .incomplete := by decide

/-- **C15_scan_decides_at_eof.** Once the stream has ended `read_stream` never answers `Pending`. -/
theorem C15_scan_decides_at_eof (b buf : Bytes) : readStream Cfg.fixed buf true b ≠ .pending :=
  readStream_eof Cfg.fixed rfl buf b

/-- **C15_field_exact** (content of one part, every schedule). Start with an empty buffer at the
first content byte of a part; let *any* sequence of "append more bytes" / "poll the field" happen
(`ops`: whole chunks, split chunks, empty chunks, polls in between — everything `PayloadBuffer` can
do short of overflowing), then the end of the stream. With `bs` the bytes fed in total:
* if `bs` contains a delimiter, the delivered content is exactly the bytes in front of the first
  one, the field ends there, and the buffer holds the rest starting at the delimiter;
* otherwise the field fails with `Incomplete` (it never hangs, never ends normally), and what was
  delivered is a prefix of `bs`. -/
theorem C15_field_exact (b : Bytes) (ops : List FOp) :
    let bs := feedsOf ops
    let s := fsClose Cfg.fixed b (bs.length + 1) (ops.foldl (fsOp Cfg.fixed b) ⟨[], [], none⟩)
    match splitDelim b bs with
    | some (c, r) => s.out = c ∧ s.buf = r ∧ s.done = some none
    | none => s.done = some (some .incomplete) ∧ s.out <+: bs :=
  field_result (cfg := Cfg.fixed) rfl rfl rfl b ops

/-- **C15_field_segmentation.** Two schedules that feed the same bytes give the same outcome, the
same content and leave the same buffer (content equality is claimed when the field ends normally;
after `Incomplete` both have delivered a prefix of the input). -/
theorem C15_field_segmentation (b : Bytes) (ops₁ ops₂ : List FOp) (h : feedsOf ops₁ = feedsOf ops₂) :
    let run := fun ops => fsClose Cfg.fixed b ((feedsOf ops).length + 1)
      (ops.foldl (fsOp Cfg.fixed b) ⟨[], [], none⟩)
    (run ops₁).done = (run ops₂).done ∧
      ((run ops₁).done = some none → (run ops₁).out = (run ops₂).out ∧ (run ops₁).buf = (run ops₂).buf) := by
  intro run
  have h1 := C15_field_exact b ops₁
  have h2 := C15_field_exact b ops₂
  simp only [] at h1 h2
  rw [← h] at h2
  cases hs : splitDelim b (feedsOf ops₁) with
  | none =>
    rw [hs] at h1 h2
    simp only [] at h1 h2
    refine ⟨?_, ?_⟩
    · show (fsClose _ _ _ _).done = (fsClose _ _ _ _).done
      rw [h1.1, ← h, h2.1]
    · intro hd
      have : (fsClose Cfg.fixed b ((feedsOf ops₁).length + 1)
        (ops₁.foldl (fsOp Cfg.fixed b) ⟨[], [], none⟩)).done = some none := hd
      rw [h1.1] at this
      cases this
  | some cr =>
    rw [hs] at h1 h2
    simp only [] at h1 h2
    refine ⟨?_, ?_⟩
    · show (fsClose _ _ _ _).done = (fsClose _ _ _ _).done
      rw [h1.2.2, ← h, h2.2.2]
    · intro _
      constructor
      · show (fsClose _ _ _ _).out = (fsClose _ _ _ _).out
        rw [h1.1, ← h, h2.1]
      · show (fsClose _ _ _ _).buf = (fsClose _ _ _ _).buf
        rw [h1.2.1, ← h, h2.2.1]

/-
Full-strength statements of DESIGN §5 that are *not* proved here (they are not known to be false;
the composition of the proved pieces over the whole state machine was not carried out):

  C15_exact:        ∀ boundary fields pre epi script, wellFormed fields → bytesOf script = encode boundary fields pre epi →
                    fieldsOf (run Cfg.fixed (fuelFor script) (initSys boundary form limit [] script)) = fields ∧ status = EOF
                    (limit large enough for every header block / boundary line)
  C15_segmentation: ∀ script₁ script₂, bytesOf script₁ = bytesOf script₂ → neither run ends in Overflow →
                    fieldsOf (run … script₁) = fieldsOf (run … script₂)

What is proved instead: the content of every part under every feeding schedule (`C15_exact_partial`,
`C15_segmentation_partial` below = `C15_field_exact`, `C15_field_segmentation`), the stability of every
line/header-block decision and of the whole `Inner::poll` decision under continuation (`C15_line_stable`,
`C15_inner_stable`), that `poll_stream` only moves bytes
towards the buffer in order (`rem` is preserved: `pollStream_mu`), termination and the buffer bound for
the whole machine.  The whole-machine statements are checked on every run by the correspondence and by
the independent oracles (generator ground truth; same bytes re-cut whole / byte-wise).
-/

/-- the part of `C15_exact` that is proved: exact content of a part, any schedule (see above) -/
theorem C15_exact_partial (b : Bytes) (ops : List FOp) (c r : Bytes)
    (h : splitDelim b (feedsOf ops) = some (c, r)) :
    let s := fsClose Cfg.fixed b ((feedsOf ops).length + 1) (ops.foldl (fsOp Cfg.fixed b) ⟨[], [], none⟩)
    s.out = c ∧ s.buf = r ∧ s.done = some none := by
  have := C15_field_exact b ops
  simp only [h] at this
  exact this

/-- **C15_field_roundtrip.** Encoding direction: if a part's content `c` is followed by the delimiter
and no delimiter starts earlier (in particular `c` may end in CR, CR LF, `--`, `CR LF --`, contain
boundary prefixes or the bare boundary), then under every schedule exactly `c` is delivered and the
buffer is left at the delimiter. -/
theorem C15_field_roundtrip (b c rest : Bytes) (ops : List FOp)
    (hf : feedsOf ops = c ++ (delim b ++ rest))
    (hc : ∀ p, p < c.length → ¬ delimAt b (c ++ (delim b ++ rest)) p) :
    let s := fsClose Cfg.fixed b ((feedsOf ops).length + 1) (ops.foldl (fsOp Cfg.fixed b) ⟨[], [], none⟩)
    s.out = c ∧ s.buf = delim b ++ rest ∧ s.done = some none := by
  have hs : splitDelim b (feedsOf ops) = some (c, delim b ++ rest) := by
    rw [hf, splitDelim_skip c.length _ (by simp) hc]
    simp only [List.drop_left', List.take_left']
    rw [splitDelim_here (List.prefix_append _ _)]
    simp
  exact C15_exact_partial b ops c (delim b ++ rest) hs

/-- content `d CR LF - -` (ends in a delimiter look-alike) in front of the real delimiter `CR LF - - B`:
no delimiter starts inside it -/
example : ∀ p, p < [100, 13, 10, 45, 45].length →
    ¬ delimAt [66] ([100, 13, 10, 45, 45] ++ (delim [66] ++ [13, 10])) p := by
  intro p hp
  have : p = 0 ∨ p = 1 ∨ p = 2 ∨ p = 3 ∨ p = 4 := by simp at hp; omega
  rcases this with rfl | rfl | rfl | rfl | rfl <;> (unfold delimAt; decide)

/-- the part of `C15_segmentation` that is proved: same bytes, any two schedules ⇒ same content,
same outcome, same rest (see above) -/
theorem C15_segmentation_partial (b : Bytes) (ops₁ ops₂ : List FOp) (h : feedsOf ops₁ = feedsOf ops₂) :
    let run := fun ops => fsClose Cfg.fixed b ((feedsOf ops).length + 1)
      (ops.foldl (fsOp Cfg.fixed b) ⟨[], [], none⟩)
    (run ops₁).done = (run ops₂).done ∧
      ((run ops₁).done = some none → (run ops₁).out = (run ops₂).out ∧ (run ops₁).buf = (run ops₂).buf) :=
  C15_field_segmentation b ops₁ ops₂ h

/-- **C15_stream_order.** `poll_stream` never loses, duplicates or reorders input: the bytes not yet
parsed (buffer ++ kept-back rest ++ script) are the same before and after, for every variant of the code. -/
theorem C15_stream_order (cfg : Cfg) (pb pb' : PB) (w : Bool) (h : pollStream cfg pb = .ok (pb', w)) :
    rem pb' = rem pb :=
  (pollStream_mu h).1

/-- **C15_poll_content** (whole `PayloadBuffer`, any limit / budget / kept-back rest). After any
`poll_stream`, a chunk that `read_stream` hands out is exactly the next piece of the part's content
according to the grammar applied to *all input not yet parsed* — the buffer, the kept-back rest of the
last chunk and everything the stream has not delivered yet (`rem`). -/
theorem C15_poll_content (b : Bytes) (pb pb' : PB) (w : Bool) (n : Nat)
    (hp : pollStream Cfg.fixed pb = .ok (pb', w))
    (hr : readStream Cfg.fixed pb'.buf pb'.eof b = .data n) :
    splitDelim b (rem pb) =
      (splitDelim b (rem { pb' with buf := pb'.buf.drop n })).map
        (fun cr => (pb'.buf.take n ++ cr.1, cr.2)) := by
  rw [← C15_stream_order Cfg.fixed pb pb' w hp]
  exact (C15_scan_content b pb'.buf (pendBytes pb' ++ tokBytes pb'.script) pb'.eof n hr).2.2

/-- **C15_poll_end.** …and a field is ended only when all input not yet parsed starts with a delimiter. -/
theorem C15_poll_end (b : Bytes) (pb pb' : PB) (w : Bool)
    (hp : pollStream Cfg.fixed pb = .ok (pb', w))
    (hr : readStream Cfg.fixed pb'.buf pb'.eof b = .fin) :
    splitDelim b (rem pb) = some ([], rem pb) := by
  rw [← C15_stream_order Cfg.fixed pb pb' w hp]
  have h1 := readStream_fin (cfg := Cfg.fixed) rfl hr
  exact splitDelim_here (h1.trans (List.prefix_append _ _))

/-- two different schedules for the same bytes `d CR LF - - B`: all at once, or cut after `CR LF - -`
with polls in between (the F5 situation) -/
example : feedsOf [.feed [100, 13, 10, 45, 45, 66], .poll] =
    feedsOf [.feed [100, 13, 10, 45, 45], .poll, .poll, .feed [66], .poll] := by decide

/-- **C15_line_stable.** A line / header block found by `read_until` (boundary lines, the blank
line after a header block, the line break in front of a delimiter) is found identically when more
bytes have arrived and whatever the end-of-stream flag says: these decisions do not depend on
where the body was cut. -/
theorem C15_line_stable (needle buf c r ext : Bytes) (eof eof' : Bool)
    (h : readUntil needle buf eof = .ok (some (c, r))) :
    readUntil needle (buf ++ ext) eof' = .ok (some (c, r ++ ext)) :=
  readUntil_stable h ext eof'

example : readUntil [10] [45, 45, 66, 13, 10, 120] false = .ok (some ([45, 45, 66, 13, 10], [120])) := rfl

/-- **C15_inner_stable** (`Inner::poll`, all of its readers composed). If the `Multipart` state machine,
looking at a buffer with the stream still open, delivers the next field (header block parsed and
checked), reports the end of the body, or fails, then it takes exactly the same decision — same field
data or error, same next state, same bytes consumed — on every continuation `buf ++ ext` of that buffer
and for either end-of-stream flag: which field comes next never depends on where the body was cut.
(Previous field read to its end, as the read-all consumer does.) -/
theorem C15_inner_stable (i : Inner) (ext : Bytes) (eof' : Bool)
    (he : i.pb.eof = false)
    (hitem : i.item = none ∨ ∃ f, i.item = some f ∧ f.hasPayload = false)
    (hp : (innerPoll Cfg.fixed i).2 ≠ .pending) :
    innerPoll Cfg.fixed (withBuf i (i.pb.buf ++ ext) eof') =
      (withBuf (innerPoll Cfg.fixed i).1 ((innerPoll Cfg.fixed i).1.pb.buf ++ ext) eof',
        (innerPoll Cfg.fixed i).2) :=
  innerPoll_stable Cfg.fixed i ext eof' he hitem hp

/-- the hypotheses are met e.g. by the initial state looking at `--B CRLF X:1 CRLF CRLF d`: a field with
header `x: 1` is delivered -/
example :
    (innerPoll Cfg.fixed { (initSys [66] false 64 [] []).inner with
        pb := ⟨[45, 45, 66, 13, 10, 88, 58, 49, 13, 10, 13, 10, 100], none, false, 64, []⟩ }).2
      = .field ⟨[([120], [49])], none⟩ := by decide

/-! ## the defects found, as theorems about the pre-repair variants of the same model -/

/-- F5 (pinned commit, `len > 4`): with exactly `CR LF - -` buffered the scanner hands the four
delimiter bytes out as content -/
theorem witness_F5_scanner_emits_delimiter :
    readStream { Cfg.fixed with f5 := false } [13, 10, 45, 45] false [66] = .data 4 := by decide

/-- repaired (`len >= 4`): it waits for the rest of the delimiter -/
theorem C15_F5_fixed : readStream Cfg.fixed [13, 10, 45, 45] false [66] = .pending := by decide

/-- F5 end to end: `--B CRLF CRLF d CRLF --`, three Pendings, `B--CRLF` ⇒ the delimiter is delivered as
content and the task hangs (pinned commit); the full statement `C15_field_exact` is false of that variant -/
theorem witness_F5_delimiter_as_content_then_hang :
    events (run { Cfg.fixed with f5 := false, f6 := false } 12 (initSys [66] false 64 []
      [.chunk (wBody [45, 45]), .pending, .pending, .pending, .chunk [66, 45, 45, 13, 10]]))
      = [.field ⟨[], none⟩, .data [100], .data [13, 10, 45, 45], .data [66, 45, 45], .hang] := by
  decide

theorem C15_F5_fixed_run :
    events (run Cfg.fixed 12 (initSys [66] false 64 []
      [.chunk (wBody [45, 45]), .pending, .pending, .pending, .chunk [66, 45, 45, 13, 10]]))
      = [.field ⟨[], none⟩, .data [100], .fieldEnd, .eof] := by
  decide

/-- F15 (pinned commit): after three `Pending`s (so that no earlier wake-up is on record), sixteen empty chunks use up the budget of one
`poll_stream`; nothing was appended, so no wake-up is scheduled ⇒ HANG although data follows -/
theorem witness_F15_empty_chunks_lose_wakeup :
    events (run { Cfg.fixed with f15 := false } 12 (initSys [66] false 64 []
      ([.chunk (wBody []), .pending, .pending, .pending] ++ List.replicate 16 (.chunk []) ++ [.chunk [45, 45, 66, 45, 45, 13, 10]])))
      = [.field ⟨[], none⟩, .data [100], .hang] := by
  decide

theorem C15_F15_fixed :
    events (run Cfg.fixed 12 (initSys [66] false 64 []
      ([.chunk (wBody []), .pending, .pending, .pending] ++ List.replicate 16 (.chunk []) ++ [.chunk [45, 45, 66, 45, 45, 13, 10]])))
      = [.field ⟨[], none⟩, .data [100], .fieldEnd, .eof] := by
  decide

/-- F16 (pinned commit): part 1 has no header fields; its content `d` is lost and the content `e`
of part 2 (`X:1` header) is delivered as the content of a header-less part -/
theorem witness_F16_headerless_part_swallows_content :
    events (run { Cfg.fixed with f16 := false } 12 (initSys [66] false 64 []
      [.chunk (wBody ([45, 45, 66, 13, 10, 88, 58, 49, 13, 10, 13, 10, 101, 13, 10, 45, 45, 66, 45, 45, 13, 10]))]))
      = [.field ⟨[], none⟩, .data [101], .fieldEnd, .eof] := by
  decide

theorem C15_F16_fixed :
    events (run Cfg.fixed 12 (initSys [66] false 64 []
      [.chunk (wBody ([45, 45, 66, 13, 10, 88, 58, 49, 13, 10, 13, 10, 101, 13, 10, 45, 45, 66, 45, 45, 13, 10]))]))
      = [.field ⟨[], none⟩, .data [100], .fieldEnd, .field ⟨[([120], [49])], none⟩, .data [101], .fieldEnd, .eof] := by
  decide

/-- F17 (pinned commit): content `d CR - - B x` is cut at the bare CR and parsing goes on successfully -/
theorem witness_F17_bare_cr_truncates_content :
    events (run { Cfg.fixed with f17 := false } 12 (initSys [66] false 64 []
      [.chunk ([45, 45, 66, 13, 10, 13, 10, 100, 13, 45, 45, 66, 120, 13, 10, 45, 45, 66, 45, 45, 13, 10])]))
      = [.field ⟨[], none⟩, .data [100], .fieldEnd, .eof] := by
  decide

theorem C15_F17_fixed :
    events (run Cfg.fixed 12 (initSys [66] false 64 []
      [.chunk ([45, 45, 66, 13, 10, 13, 10, 100, 13, 45, 45, 66, 120, 13, 10, 45, 45, 66, 45, 45, 13, 10])]))
      = [.field ⟨[], none⟩, .data [100, 13, 45, 45, 66, 120], .fieldEnd, .eof] := by
  decide

end ActixModel.Props.C15
