import ActixModel.Proofs.Files
import ActixModel.Proofs.PathBuf
import ActixModel.Proofs.Url
import ActixModel.Proofs.Range
import ActixModel.Proofs.RangeSpec
/-
C16 — static file serving stays inside its root and answers ranges exactly.

Models: `Model/Files.lean` (`parse_path`, router re-quoting, `FilesService::call` over an abstract
tree) and `Model/Range.lean` (`http_range` parser, `NamedFile::into_response`, `ChunkedReadFile`).
All theorems quantify over every path / header byte string, every file length below 2^64,
every file content and every combination of conditional headers; nothing is bounded.
-/
namespace ActixModel.C16
open ActixModel.Util ActixModel.Files ActixModel.Range

/-- ASCII text as bytes, in a form the kernel can evaluate (for the concrete examples) -/
def ascii (cs : List Char) : Bytes := cs.map fun c => UInt8.ofNat c.toNat

/-! ## Spec side: what "inside the root" means lexically -/

/-- The walk the OS performs lexically on a component list, starting in directory `stack`:
`..` leaves the current directory, `.` and empty pieces stay, anything else descends. -/
def resolve : List Bytes → List Bytes → List Bytes
  | stack, [] => stack
  | stack, c :: cs =>
    if c = dotdot then resolve stack.dropLast cs
    else if c = dot ∨ c = [] then resolve stack cs
    else resolve (stack ++ [c]) cs

/-- a walk that only ever descends from `root` never leaves it: at every step the current
directory has `root` as a prefix -/
def StaysBelow (root : List Bytes) (comps : List Bytes) : Prop :=
  ∀ k, root <+: resolve root (comps.take k)

/-- a walk over Normal components only descends -/
theorem C16_resolve_normal (stack comps : List Bytes) (h : ∀ c ∈ comps, isNormalSeg c = true) :
    resolve stack comps = stack ++ comps := by
  induction comps generalizing stack with
  | nil => simp [resolve]
  | cons c cs ih =>
    have hc := h c (List.mem_cons_self ..)
    simp only [isNormalSeg, Bool.and_eq_true, Bool.not_eq_true', bne_iff_ne, ne_eq] at hc
    have h1 : c ≠ dotdot := hc.1.2
    have h2 : c ≠ dot := hc.1.1.2
    have h3 : c ≠ [] := by
      intro h0; rw [h0] at hc; simp at hc
    simp only [resolve, h1, h2, h3, if_false, or_self]
    rw [ih _ (fun c' hc' => h c' (List.mem_cons_of_mem _ hc'))]
    simp

/-! ## Paths -/

/-- **C16_no_escape**: whatever string reaches `parse_path` (every byte string, any
`hidden_files` setting), it does not panic (neither `segment_count` underflow nor one of the two
final assertions), and if it returns a path then every component is `Normal` — non-empty, not
`.`, not `..`, no `/` inside — so that joined onto any root directory the walk never leaves the
root, not even transiently, and ends at `root/components`. -/
theorem C16_no_escape (hidden : Bool) (path : Bytes) :
    (∀ p, parsePath hidden path ≠ .panic p) ∧
    ∀ buf, parsePath hidden path = .ok buf →
      (∀ c ∈ buf, isNormalSeg c = true) ∧
      ∀ root : List Bytes, resolve root buf = root ++ buf ∧ StaysBelow root buf := by
  have h := parsePath_post hidden path
  constructor
  · intro p hp; rw [hp] at h; exact h
  · intro buf hb
    rw [hb] at h
    simp only [PathPost] at h
    refine ⟨h, fun root => ⟨C16_resolve_normal root buf h, ?_⟩⟩
    intro k
    rw [C16_resolve_normal root (buf.take k) (fun c hc => h c (List.mem_of_mem_take hc))]
    exact List.prefix_append _ _

/-- the segment loop computes the lexical walk from its current buffer -/
theorem C16_segLoop_is_walk (hidden : Bool) : ∀ (segs buf : List Bytes) (cnt : Nat) (buf' : List Bytes) (cnt' : Nat),
    segLoop hidden segs buf cnt = .ok (buf', cnt') → buf' = resolve buf segs := by
  intro segs
  induction segs with
  | nil => intro buf cnt buf' cnt' h; simp only [segLoop, Outcome.ok.injEq, Prod.mk.injEq] at h; simp [resolve, h.1]
  | cons seg rest ih =>
    intro buf cnt buf' cnt' h
    unfold segLoop at h
    split at h
    · cases h
    · rename_i hdot
      split at h
      · rename_i hdd
        cases cnt with
        | zero => cases h
        | succ c => simp only [resolve, hdd, if_true]; exact ih _ _ _ _ h
      · rename_i hdd
        split at h
        · cases h
        · split at h
          · cases h
          · split at h
            · cases h
            · split at h
              · cases h
              · split at h
                · cases h
                · split at h
                  · rename_i hemp
                    have he : seg = [] := by simpa using hemp
                    cases cnt with
                    | zero => cases h
                    | succ c => simp only [resolve, hdd, he, if_false, or_true, if_true]; subst he; exact ih _ _ _ _ h
                  · rename_i hne
                    have he : seg ≠ [] := by simpa using hne
                    simp only [resolve, hdd, hdot, he, if_false, or_self]
                    exact ih _ _ _ _ h

/-- **C16_parse_path_is_lexical_walk**: when `parse_path` accepts, its result is exactly the
lexical walk (`..` pops, empty pieces skipped) over the `/`-pieces of the once-decoded string,
started at the (empty) root — the function computes the normal form, not merely something safe. -/
theorem C16_parse_path_is_lexical_walk (hidden : Bool) (path : Bytes) (buf : List Bytes)
    (h : parsePath hidden path = .ok buf) :
    buf = resolve [] (splitOn 0x2F (percentDecode path)) := by
  unfold parsePath at h
  simp only at h
  split at h
  · cases h
  · split at h
    · cases h
    · split at h
      · rename_i b c heq
        have hw := C16_segLoop_is_walk hidden _ _ _ _ _ heq
        unfold finalCheck at h
        split at h
        · cases h
        · split at h
          · cases h
          · cases h; exact hw
      · cases h
      · cases h

/-- the hypotheses of `C16_no_escape` are satisfiable with a non-trivial result:
`/a/../b/%2e%2e/c` parses to `c` -/
example : parsePath false (ascii ['/', 'a', '/', '.', '.', '/', 'b', '/', '%', '2', 'e', '%', '2', 'e', '/', 'c']) = .ok [ascii ['c']] := by decide

/-- the classic traversal string is neutralised, not rejected (the unit test of `path_buf.rs`) -/
example : parsePath false (ascii ['/', '.', '.', '/', '.', '.', '/', 'e', 't', 'c', '/', 'p', 'a', 's', 's', 'w', 'd']) = .ok [ascii ['e', 't', 'c'], ascii ['p', 'a', 's', 's', 'w', 'd']] := by
  decide

/-- **C16_encoded_slash_rejected**: a path in which percent-decoding *creates* a `/` (the `/`
count changes) is refused with `BadChar('/')` or `NotValidUtf8`, never parsed. -/
theorem C16_encoded_slash_rejected (hidden : Bool) (path : Bytes)
    (h : countByte 0x2F (percentDecode path) ≠ countByte 0x2F path) :
    parsePath hidden path = .err (.badChar 0x2F) ∨ parsePath hidden path = .err .notValidUtf8 := by
  unfold parsePath
  simp only
  split
  · right; rfl
  · left
    have hany : anyDecoded path = true := by
      cases ha : anyDecoded path with
      | true => rfl
      | false => rw [percentDecode_of_not_anyDecoded path ha] at h; exact absurd rfl h
    have : (countByte 0x2F path + 1 != countByte 0x2F (percentDecode path) + 1) = true := by
      simp only [bne_iff_ne, ne_eq]; omega
    simp [hany, this]

example : countByte 0x2F (percentDecode (ascii ['/', 'a', '%', '2', 'F', 'b'])) ≠ countByte 0x2F (ascii ['/', 'a', '%', '2', 'F', 'b']) := by
  decide

/-- **C16_pathbuf_refines**: the model with the `PathBuf` as a byte string — `push` inserting
separators, `pop` cutting at the last one, and std's component parser (skipping empty and `.`
pieces, `..` = ParentDir, leading `/` = RootDir) in the final assertion — is exactly the
component-list model rendered with `/`: same errors, same (absent) panics, for every input.
(The correspondence run compares this string with the real `PathBuf`.) -/
theorem C16_pathbuf_refines (hidden : Bool) (path : Bytes) :
    parsePathS hidden path = (parsePath hidden path).map render :=
  parsePathS_refines hidden path

/-- … and the rendered string parses back, with std's parser, into exactly the Normal components:
no `RootDir` (absolute path replacing the root in `join`), no `ParentDir`, no `CurDir`. -/
theorem C16_components_normal (hidden : Bool) (path : Bytes) (s : Bytes)
    (h : parsePathS hidden path = .ok s) :
    ∃ buf, parsePath hidden path = .ok buf ∧ s = render buf ∧ componentsS s = buf.map .normal := by
  rw [parsePathS_refines] at h
  cases hp : parsePath hidden path with
  | ok buf =>
    rw [hp] at h
    simp only [Outcome.map, Outcome.ok.injEq] at h
    have hn := parsePath_post hidden path
    rw [hp] at hn
    exact ⟨buf, rfl, h.symm, h ▸ componentsS_render hn⟩
  | err e => rw [hp] at h; cases h
  | panic p => rw [hp] at h; cases h

example : parsePathS false (ascii ['/', 'a', '/', '.', '.', '/', 'b', '/', 'c', '/']) = .ok (ascii ['b', '/', 'c']) := by decide

/-- `serve` answers with a file or a listing only at a tree position whose components are all
Normal (given a Normal index-file name): the served location is `root/…` for every root. -/
def ServedInside : Served → Prop
  | .file path _ _ => ∀ c ∈ path, isNormalSeg c = true
  | .listing dir => ∀ c ∈ dir, isNormalSeg c = true
  | .panic _ => False
  | _ => True

/-- **C16_serve_inside**: for every configuration, tree, method and request path, the file
service never panics, and whenever it opens a file or lists a directory, the location is the
root followed by Normal components only (`resolve root path = root ++ path`). -/
theorem C16_serve_inside (cfg : Config) (t : Tree) (getOrHead : Bool) (unprocessed : Bytes) (endsSlash : Bool)
    (hix : ∀ ix, cfg.index = some ix → isNormalSeg ix = true) :
    ServedInside (serve cfg t getOrHead unprocessed endsSlash) := by
  unfold serve
  have h := parsePath_post cfg.hidden unprocessed
  split
  · simp [ServedInside]
  · split
    · simp [ServedInside]
    · rename_i p heq; rw [heq] at h; exact h
    · rename_i rel heq
      rw [heq] at h
      simp only [PathPost] at h
      split
      · simp [ServedInside]
      · split
        · simp [ServedInside]
        · split
          · rename_i ix hixeq
            have hn := hix ix hixeq
            split
            · simp only [ServedInside]
              intro c hc
              simp only [List.mem_append, List.mem_cons, List.not_mem_nil, or_false] at hc
              rcases hc with hc | rfl
              · exact h c hc
              · exact hn
            · simp [ServedInside]
            · split
              · exact h
              · simp [ServedInside]
          · split
            · exact h
            · simp [ServedInside]
      · exact h

/-- **C16_request_inside**: the same for a raw request target: whatever bytes the URI path holds,
after the router's re-quoting (`%XX` decoded except `%25 %2F %2B`) and lossy UTF-8 conversion the
service (mounted at `/`) still never panics and serves only below the root. -/
theorem C16_request_inside (cfg : Config) (t : Tree) (getOrHead : Bool) (rawUriPath : Bytes)
    (hix : ∀ ix, cfg.index = some ix → isNormalSeg ix = true) :
    ServedInside
      (serve cfg t getOrHead (urlPath rawUriPath) (endsWithByte 0x2F (urlPath rawUriPath))) :=
  C16_serve_inside cfg t getOrHead _ _ hix

/-- **C16_router_keeps_separators**: for every raw request target, the path the router hands on
(`%XX` decoded except `%25 %2F %2B`, then lossy UTF-8) has exactly the `/` separators of the raw
target: an encoded slash is never turned into a separator before `parse_path` sees (and refuses)
it, and no separator is lost in invalid UTF-8. -/
theorem C16_router_keeps_separators (raw : Bytes) :
    countByte 0x2F (urlPath raw) = countByte 0x2F raw :=
  urlPath_slashes raw

example : urlPath (ascii ['/', 'a', '%', '2', 'f', '%', '2', 'e', '%', 'f', 'f']) =
    ascii ['/', 'a', '%', '2', 'f', '.'] ++ replacement := by decide

/-- **C16_serve_file_in_tree**: a served file is an entry of the tree below the root (the model's
file system has nothing else), found under exactly the parsed path or that path plus the index name. -/
theorem C16_serve_file_in_tree (cfg : Config) (t : Tree) (g : Bool) (u : Bytes) (e : Bool)
    (path : List Bytes) (id len : Nat) (h : serve cfg t g u e = .file path id len) :
    lookup t path = some (.file id len) ∧
    ∃ rel, parsePath cfg.hidden u = .ok rel ∧ (path = rel ∨ ∃ ix, cfg.index = some ix ∧ path = rel ++ [ix]) := by
  unfold serve at h
  split at h
  · cases h
  · split at h
    · cases h
    · cases h
    · rename_i rel heq
      split at h
      · cases h
      · split at h
        · cases h
        · split at h
          · rename_i ix hix
            split at h
            · rename_i id' len' hl
              cases h
              exact ⟨hl, rel, heq, Or.inr ⟨ix, hix, rfl⟩⟩
            · cases h
            · split at h <;> cases h
          · split at h <;> cases h
      · rename_i id' len' hl
        cases h
        exact ⟨hl, path, heq, Or.inl rfl⟩

/-! ## Ranges -/

/-- a `Content-Range` that describes bytes of a `len`-byte file -/
def CRWellFormed (len : Nat) (cr : ContentRange) : Prop :=
  cr.first ≤ cr.last ∧ cr.last < len ∧ cr.total = len

/-- the allowed answers to a request that carries a `Range` header string -/
def RangedOutcome (len : Nat) : Resp → Prop
  | .partialContent cr offset length => CRWellFormed len cr ∧ offset = cr.first ∧ length = cr.last - cr.first + 1
  | .notModified (some cr) => CRWellFormed len cr
  | .preconditionFailed (some cr) => CRWellFormed len cr
  | .rangeNotSatisfiable total => total = len
  | _ => False

/-- **C16_range_total**: for every `Range` header string, every file length (< 2^64), every entity
tag / date state and every combination of conditional headers, `into_response` answers 206 with a
well-formed `Content-Range` (`first ≤ last < len`, body window = exactly that range), 304 / 412
carrying such a `Content-Range`, or 416 with `bytes */len`; no arithmetic operation overflows or
underflows (no `panic` outcome), in particular not `offset + length - 1`. -/
theorem C16_range_total (m : FileMeta) (c : Cond) (h : Bytes) (hlen : m.len ≤ u64Max) :
    RangedOutcome m.len (intoResponse m c (.str h)) := by
  unfold intoResponse intoResponseG
  simp only
  have hp := parse_spec h m.len hlen
  split
  · rename_i heq; rw [heq] at hp; exact hp
  · simp [RangedOutcome]
  · simp [RangedOutcome]
  · rename_i r0 rest heq
    rw [heq] at hp
    simp only [ParsePost] at hp
    have hr := hp r0 (List.mem_cons_self ..)
    obtain ⟨hin, hz⟩ := hr
    by_cases h0 : r0.length = 0
    · simp [h0, RangedOutcome]
    · simp only [Bool.true_and, decide_eq_true_eq, h0, if_false]
      have hadd : r0.start + r0.length ≤ u64Max := by omega
      have hsub : 1 ≤ r0.start + r0.length := by omega
      simp only [lastBytePos, checkedAdd, hadd, if_true, checkedSub, hsub]
      split
      · simp [RangedOutcome, CRWellFormed]; omega
      · split
        · simp [RangedOutcome, CRWellFormed]; omega
        · simp [RangedOutcome, CRWellFormed]; omega

/-- non-trivial instance: `bytes=2-5` on a 10-byte file with a matching `If-None-Match` -/
example : intoResponse ⟨10, some ⟨false, [1]⟩, some 100⟩ { ifNoneMatch := some (.items [⟨true, [1]⟩]), hasIfNoneMatch := true }
    (.str (ascii ['b', 'y', 't', 'e', 's', '=', '2', '-', '5'])) = .notModified (some ⟨2, 5, 10⟩) := by decide

example : intoResponse ⟨10, none, none⟩ {} (.str (ascii ['b', 'y', 't', 'e', 's', '=', '2', '-', '5'])) = .partialContent ⟨2, 5, 10⟩ 2 4 := by
  decide

/-! ### against the grammar of RFC 7233 (canonical shapes, arbitrary digit strings) -/

/-- **C16_range_first_last_rfc**: `bytes=A-B` for *any* digit strings `A`, `B` (leading zeros
allowed, any length) with values `a ≤ b`, `b < 2^64`: if `a < len` the answer (when no precondition
intervenes) is 206 for exactly `a ..= min(b, len-1)` — RFC 7233 §2.1, last-byte-pos clamped to the
representation; if `a ≥ len` it is 416. -/
theorem C16_range_first_last_rfc (m : FileMeta) (c : Cond) (A B : Bytes) (hA : IsDigits A) (hB : IsDigits B)
    (hlen : m.len ≤ u64Max) (hab : decVal A ≤ decVal B) (hb : decVal B ≤ u64Max)
    (hpf : preconditionFailed m c = false) (hnm : notModified m c = false) :
    intoResponse m c (.str (bytesPrefix ++ (A ++ 0x2D :: B))) =
      if decVal A < m.len then
        .partialContent ⟨decVal A, min (decVal B) (m.len - 1), m.len⟩ (decVal A) (min (decVal B) (m.len - 1) - decVal A + 1)
      else .rangeNotSatisfiable m.len := by
  have hmem := fun b => @mem_dash_digits A B hA hB b
  unfold intoResponse intoResponseG
  simp only
  rw [parse_one_spec _ _ (by simp) (dash_digits_no_comma hmem) (dash_digits_no_ws hmem),
    single_first_last A B hA hB m.len hlen]
  have h1 : ¬ decVal A > u64Max := by omega
  have h3 : ¬ decVal B > u64Max := by omega
  have h4 : ¬ decVal A > decVal B := by omega
  simp only [h1, h3, h4, if_false, hpf, hnm]
  by_cases h2 : decVal A < m.len
  · have h2' : ¬ decVal A ≥ m.len := by omega
    have e1 : ¬ (min (decVal B) (m.len - 1) - decVal A + 1 = 0) := by omega
    have e2 : decVal A + (min (decVal B) (m.len - 1) - decVal A + 1) ≤ u64Max := by omega
    have e3 : 1 ≤ decVal A + (min (decVal B) (m.len - 1) - decVal A + 1) := by omega
    have e4 : decVal A + (min (decVal B) (m.len - 1) - decVal A + 1) - 1 = min (decVal B) (m.len - 1) := by omega
    simp [h2, h2', e1, lastBytePos, checkedAdd, checkedSub, e2, e3, e4]
  · have h2' : decVal A ≥ m.len := by omega
    simp [h2, h2']

/-- **C16_range_open_rfc**: `bytes=A-` with value `a < 2^64`: 206 for `a ..= len-1` if `a < len`, else 416. -/
theorem C16_range_open_rfc (m : FileMeta) (c : Cond) (A : Bytes) (hA : IsDigits A)
    (hlen : m.len ≤ u64Max) (ha : decVal A ≤ u64Max)
    (hpf : preconditionFailed m c = false) (hnm : notModified m c = false) :
    intoResponse m c (.str (bytesPrefix ++ (A ++ [0x2D]))) =
      if decVal A < m.len then .partialContent ⟨decVal A, m.len - 1, m.len⟩ (decVal A) (m.len - decVal A)
      else .rangeNotSatisfiable m.len := by
  have hmem : ∀ b ∈ A ++ [0x2D], isDigit b = true ∨ b = 0x2D := by
    intro b hb
    simp only [List.mem_append, List.mem_cons, List.not_mem_nil, or_false] at hb
    rcases hb with h | h
    · exact Or.inl (hA.2 b h)
    · exact Or.inr h
  unfold intoResponse intoResponseG
  simp only
  rw [parse_one_spec _ _ (by simp) (dash_digits_no_comma hmem) (dash_digits_no_ws hmem), single_first_open A hA m.len]
  have h1 : ¬ decVal A > u64Max := by omega
  simp only [h1, if_false, hpf, hnm]
  by_cases h2 : decVal A < m.len
  · have h2' : ¬ decVal A ≥ m.len := by omega
    have e1 : ¬ (m.len - decVal A = 0) := by omega
    have e2 : decVal A + (m.len - decVal A) ≤ u64Max := by omega
    have e3 : 1 ≤ decVal A + (m.len - decVal A) := by omega
    have e4 : decVal A + (m.len - decVal A) - 1 = m.len - 1 := by omega
    simp [h2, h2', e1, lastBytePos, checkedAdd, checkedSub, e2, e3, e4]
  · have h2' : decVal A ≥ m.len := by omega
    simp [h2, h2']

/-- **C16_range_suffix_rfc**: `bytes=-N` with value `0 < n < 2^64` on a non-empty file: 206 for the
last `min(n, len)` bytes; `n = 0` or an empty file: 416 (the latter is the repaired F7). -/
theorem C16_range_suffix_rfc (m : FileMeta) (c : Cond) (N : Bytes) (hN : IsDigits N)
    (hlen : m.len ≤ u64Max) (hn : decVal N ≤ u64Max)
    (hpf : preconditionFailed m c = false) (hnm : notModified m c = false) :
    intoResponse m c (.str (bytesPrefix ++ (0x2D :: N))) =
      if decVal N = 0 ∨ m.len = 0 then .rangeNotSatisfiable m.len
      else .partialContent ⟨m.len - min (decVal N) m.len, m.len - 1, m.len⟩
        (m.len - min (decVal N) m.len) (min (decVal N) m.len) := by
  have hmem : ∀ b ∈ (0x2D : UInt8) :: N, isDigit b = true ∨ b = 0x2D := by
    intro b hb
    simp only [List.mem_cons] at hb
    rcases hb with h | h
    · exact Or.inr h
    · exact Or.inl (hN.2 b h)
  unfold intoResponse intoResponseG
  simp only
  rw [parse_one_spec _ _ (by simp) (dash_digits_no_comma hmem) (dash_digits_no_ws hmem), single_suffix N hN m.len]
  have h1 : ¬ decVal N > u64Max := by omega
  simp only [h1, if_false, hpf, hnm]
  by_cases h2 : decVal N = 0
  · simp [h2]
  · simp only [h2, if_false, false_or]
    by_cases h3 : m.len = 0
    · simp [h3]
    · have e1 : ¬ (min (decVal N) m.len = 0) := by omega
      have e2 : m.len - min (decVal N) m.len + min (decVal N) m.len ≤ u64Max := by omega
      have e3 : 1 ≤ m.len - min (decVal N) m.len + min (decVal N) m.len := by omega
      have e4 : m.len - min (decVal N) m.len + min (decVal N) m.len - 1 = m.len - 1 := by omega
      simp [h3, e1, lastBytePos, checkedAdd, checkedSub, e2, e3, e4]

/-- the digit-string hypotheses are satisfiable; `0007-0009` on a 9-byte file is `7 ..= 8` -/
example : IsDigits (ascii ['0', '0', '0', '7']) ∧ decVal (ascii ['0', '0', '0', '7']) = 7 := by
  refine ⟨⟨by decide, by decide⟩, by decide⟩

/-- **C16_parse_u64_exact**: the `checked_mul`/`checked_add` loop computes the decimal value of
every digit string, and fails exactly when the value does not fit 64 bits (no wrap-around, no
spurious failure on leading zeros). -/
theorem C16_parse_u64_exact (ds : Bytes) (hd : IsDigits ds) :
    parseU64 ds = if decVal ds ≤ u64Max then some (decVal ds) else none :=
  parseU64_exact ds hd

/-- **C16_first_satisfiable_range**: for a header with several comma separated specs, a 206 is
always for the *first* spec (in header order) that overlaps the file; later ones are ignored
(multi-range responses are not produced). -/
theorem C16_first_satisfiable_range (m : FileMeta) (c : Cond) (h : Bytes) (cr : ContentRange) (o l : Nat)
    (hr : intoResponse m c (.str h) = .partialContent cr o l) :
    ∃ r rest, (splitOn 0x2C (h.drop 6)).filterMap (pieceRange m.len) = r :: rest ∧ o = r.start ∧ l = r.length := by
  unfold intoResponse intoResponseG at hr
  simp only at hr
  split at hr
  · cases hr
  · cases hr
  · cases hr
  · rename_i r0 tail heq
    have hparse : parseLoop m.len (splitOn 0x2C (h.drop 6)) [] false = .ok (r0 :: tail) := by
      unfold parse at heq
      split at heq
      · cases heq
      · split at heq
        · cases heq
        · exact heq
    have := parseLoop_order m.len _ [] false _ hparse
    simp only [List.reverse_nil, List.nil_append] at this
    refine ⟨r0, tail, this.symm, ?_⟩
    split at hr
    · cases hr
    · split at hr
      · cases hr
      · split at hr
        · cases hr
        · split at hr
          · cases hr
          · cases hr; exact ⟨rfl, rfl⟩

/-- **C16_no_range_total**: without a `Range` header the answer is the full 200, 304 or 412; with a
`Range` value that is not a visible-ASCII string it is 400 (the one outcome outside the
property's list: it needs a header byte ≥ 0x80, see docs/C16.md O1). -/
theorem C16_no_range_total (m : FileMeta) (c : Cond) :
    (intoResponse m c .absent = .full m.len ∨ intoResponse m c .absent = .notModified none ∨
      intoResponse m c .absent = .preconditionFailed none) ∧
    intoResponse m c .notStr = .badRequest := by
  unfold intoResponse intoResponseG
  simp only
  constructor
  · split
    · right; right; rfl
    · split
      · right; left; rfl
      · left; rfl
  · trivial

/-- **C16_chunked_read_exact**: for every file content, every `offset`/`size` window inside the
file, `ChunkedReadFile` terminates without error after emitting exactly `file[offset .. offset+size]`,
in chunks of at least 1 and at most 65 536 bytes. -/
theorem C16_chunked_read_exact (file : Bytes) (size offset : Nat) (h : offset + size ≤ file.length) :
    (readBody file size offset).2 = true ∧
    (readBody file size offset).1.flatten = (file.drop offset).take size ∧
    ∀ c ∈ (readBody file size offset).1, 0 < c.length ∧ c.length ≤ Consts.filesChunkSize :=
  readBody_exact file size offset h

example : readBody [1, 2, 3, 4, 5] 3 1 = ([[2, 3, 4]], true) := by decide

/-- the bytes `first ..= last` of a file -/
def slice (file : Bytes) (first last : Nat) : Bytes := (file.drop first).take (last - first + 1)

/-- **C16_range_body_exact**: whenever the answer to a ranged request on a file whose content has
the length `into_response` saw is a 206, the body stream delivers exactly the bytes
`first ..= last` named in its `Content-Range`, without error; a 200 delivers the whole file. -/
theorem C16_range_body_exact (file : Bytes) (m : FileMeta) (c : Cond) (r : RangeHdr)
    (hm : m.len = file.length) (hlen : m.len ≤ u64Max) :
    match intoResponse m c r with
    | .partialContent cr o l =>
      (bodyOf file (.partialContent cr o l)).2 = true ∧
      (bodyOf file (.partialContent cr o l)).1.flatten = slice file cr.first cr.last
    | .full len => (bodyOf file (.full len)).2 = true ∧ (bodyOf file (.full len)).1.flatten = file
    | _ => True := by
  cases r with
  | absent =>
    rcases (C16_no_range_total m c).1 with h | h | h <;> rw [h]
    · simp only [bodyOf]
      have := readBody_exact file m.len 0 (by omega)
      refine ⟨this.1, ?_⟩
      rw [this.2.1, hm]; simp
    · trivial
    · trivial
  | notStr => rw [(C16_no_range_total m c).2]; trivial
  | str h =>
    have ht := C16_range_total m c h hlen
    split
    · rename_i cr o l heq
      rw [heq] at ht
      simp only [RangedOutcome, CRWellFormed] at ht
      obtain ⟨⟨h1, h2, _⟩, ho, hl⟩ := ht
      simp only [bodyOf]
      have := readBody_exact file l o (by omega)
      refine ⟨this.1, ?_⟩
      rw [this.2.1, ho, hl]; rfl
    · rename_i len heq
      rw [heq] at ht
      exact absurd ht (by simp [RangedOutcome])
    · trivial

/-- **C16_truncated_file_errors**: if the file turns out shorter than the window (`offset + size`
beyond its end — truncated after `open`), the stream ends with an error, never silently short. -/
theorem C16_truncated_file_errors (file : Bytes) : ∀ (fuel : Nat) (st : Chunked),
    st.counter < st.size → file.length < st.offset + (st.size - st.counter) → st.size - st.counter < fuel →
    (readAll file fuel st).2 = false := by
  intro fuel
  induction fuel with
  | zero => intro st _ _ h; omega
  | succ fuel ih =>
    intro st hc hshort hfuel
    unfold readAll pollNext
    have hne : ¬ st.size = st.counter := by omega
    simp only [hne, if_false]
    split
    · rename_i heq; split at heq <;> cases heq
    · rfl
    · rename_i bs st' heq
      split at heq
      · cases heq
      · rename_i hnonempty
        cases heq
        simp only
        have hdl : ((file.drop st.offset).take (min (st.size - st.counter) Consts.filesChunkSize)).length
            ≤ min (st.size - st.counter) Consts.filesChunkSize := by
          rw [List.length_take]; omega
        have hdl2 : ((file.drop st.offset).take (min (st.size - st.counter) Consts.filesChunkSize)).length
            ≤ file.length - st.offset := by
          rw [List.length_take, List.length_drop]; omega
        have hpos : 0 < ((file.drop st.offset).take (min (st.size - st.counter) Consts.filesChunkSize)).length := by
          rw [List.length_pos_iff]; intro h0; rw [h0] at hnonempty; simp at hnonempty
        apply ih
        · simp only; omega
        · simp only; omega
        · simp only; omega

/-! ## Preconditions -/

/-- **C16_precondition_order**: 412 is decided before 304, and both before the body: a failed
`If-Match` / `If-Unmodified-Since` yields 412 whatever else is sent; `If-None-Match`, when
present, decides alone (an `If-Modified-Since` next to it is ignored, RFC 7232 §3.3). -/
theorem C16_precondition_order (m : FileMeta) (c : Cond) :
    (preconditionFailed m c = true → intoResponse m c .absent = .preconditionFailed none) ∧
    (preconditionFailed m c = false → notModified m c = true → intoResponse m c .absent = .notModified none) ∧
    (c.hasIfNoneMatch = true → noneMatch m.etag c.ifNoneMatch = true → notModified m c = false) := by
  refine ⟨?_, ?_, ?_⟩
  · intro h; simp [intoResponse, intoResponseG, h]
  · intro h1 h2; simp [intoResponse, intoResponseG, h1, h2]
  · intro h1 h2; simp [notModified, h1, h2]

/-- `If-None-Match` uses the weak comparison, `If-Match` the strong one: a weak validator of the
file's own tag gives 304 for the former and 412 for the latter. -/
theorem C16_weak_strong (m : FileMeta) (tag : Bytes) (w : Bool) (lm : Option Nat) (hm : m = ⟨m.len, some ⟨false, tag⟩, lm⟩) :
    intoResponse m { ifNoneMatch := some (.items [⟨w, tag⟩]), hasIfNoneMatch := true } .absent = .notModified none ∧
    intoResponse m { ifMatch := some (.items [⟨true, tag⟩]) } .absent = .preconditionFailed none := by
  rw [hm]
  constructor <;>
    simp [intoResponse, intoResponseG, preconditionFailed, notModified, anyMatch, noneMatch, strongEq, weakEq]

/-! ## Findings on the model (kernel-checked counter-examples) -/

/-- F7 (repaired by the `fix:` commit on `actix-files/src/named.rs`): at the pinned commit
(`zeroLenGuard = false`) a suffix range on an empty file reaches `0 + 0 - 1` and panics. -/
theorem witness_F7_suffix_range_on_empty_file_panics :
    (match intoResponseG false ⟨0, none, none⟩ {} (.str (ascii ['b', 'y', 't', 'e', 's', '=', '-', '5'])) with
     | .panic => true
     | _ => false) = true := by decide

/-- the same request after the fix: 416 `bytes */0` -/
theorem witness_F7_fixed :
    (match intoResponse ⟨0, none, none⟩ {} (.str (ascii ['b', 'y', 't', 'e', 's', '=', '-', '5'])) with
     | .rangeNotSatisfiable 0 => true
     | _ => false) = true := by decide

/-- O2 (observation, not in the property's words): `If-Unmodified-Since` is evaluated even when a
matching `If-Match` is present (RFC 7232 §6 lets `If-Match` take precedence): 412. -/
theorem witness_O2_if_match_does_not_shadow_if_unmodified_since :
    (match intoResponse ⟨10, some ⟨false, [1]⟩, some 100⟩
        { ifMatch := some (.items [⟨false, [1]⟩]), ifUnmodifiedSince := some 50 } .absent with
     | .preconditionFailed none => true
     | _ => false) = true := by decide

/-- O5 (observation): the router decodes once, `parse_path` decodes again: the request target
`/%252e` reaches the file whose name is the three characters `%2e` … -/
theorem witness_O5_double_decoding_reaches_literal_name :
    parsePath false (urlPath (ascii ['/', '%', '2', '5', '2', 'e'])) = .ok [ascii ['%', '2', 'e']] := by decide

/-- … and `/%%32e%%32e/x` (router: `%32` → `2`) is seen by `parse_path` as `/%2e%2e/x` = `/../x`
and popped — safe, by `C16_no_escape`. -/
theorem witness_O5_double_decoding_is_popped :
    parsePath false (urlPath (ascii ['/', 'a', '/', '%', '%', '3', '2', 'e', '%', '%', '3', '2', 'e', '/', 'x'])) =
      .ok [ascii ['x']] := by decide

/-- O3 (observation): a last-byte-pos that does not fit `u64` makes the whole header invalid
(416) although RFC 7233 would clamp it to the end of the file. -/
theorem witness_O3_overflowing_last_byte_pos_is_416 :
    (match intoResponse ⟨10, none, none⟩ {} (.str (ascii ['b', 'y', 't', 'e', 's', '=', '0', '-', '1', '8', '4', '4', '6', '7', '4', '4', '0', '7', '3', '7', '0', '9', '5', '5', '1', '6', '1', '6'])) with
     | .rangeNotSatisfiable 10 => true
     | _ => false) = true := by decide

end ActixModel.C16
