import ActixModel.Proofs.Pool
import ActixModel.Proofs.ClientDecode
import ActixModel.Model.ClientWorld
/-
C17 — HTTP client: complete body or error; safe reuse; bounded connections.

Models: `Model/ClientDecode.lean` (payload decoders + Framed/PlStream end-of-stream rule),
`Model/Client.lean` (one exchange: head, framing, release points), `Model/Pool.lean` (the pool).
Everything below is quantified over all byte streams / all segmentations / all close points /
all pool histories; `decide` is used only for the concrete `witness_*` counter-example.
-/
namespace ActixModel.C17
open ActixModel.Util ActixModel.Pool ActixModel.ClientDecode ActixModel.Client

/-! ## Part 1 — the pool: all histories -/

-- `Ev`, `stepEv`, `runEvs` (the pool as a transition system: the client's own calls `acquire` /
-- `release` / `dropLease` and the peers' `peerSend` / `peerClose`) are defined in `Model/Pool.lean`.

/-- the inductive invariant: permits handed out ≤ limit, and for every authority the sockets
open towards it (idle + held by a lease) ≤ limit -/
def Inv (cfg : Cfg) (p : Pool) : Prop :=
  p.leases.length ≤ cfg.limit ∧ ∀ a, openOf a p ≤ cfg.limit

theorem inv_empty (cfg : Cfg) : Inv cfg Pool.empty := by
  constructor
  · simp [Pool.empty]
  · intro a; simp [openOf, Pool.empty, lookup, leasedOf]

theorem inv_acquire (cfg : Cfg) (now a : Nat) (p : Pool) (h : Inv cfg p)
    (hc : canAcquire cfg p = true) : Inv cfg (acquire cfg now a p).1 := by
  have hlt : p.leases.length < cfg.limit := by simpa [canAcquire] using hc
  unfold acquire
  generalize hp : popUsable cfg now (lookup a p.avail) = r
  obtain ⟨r1, rest, closed⟩ := r
  have hlen := popUsable_length cfg now (lookup a p.avail)
  rw [hp] at hlen
  cases r1 with
  | some c =>
    simp only [Option.isSome_some, if_true] at hlen
    constructor
    · simp; omega
    · intro b
      by_cases hb : b = a
      · subst hb
        have := h.2 b
        simp only [openOf, lookup_store_same, leasedOf_append] at this ⊢
        have : leasedOf b [⟨b, some c⟩] = 1 := by simp [leasedOf]
        omega
      · have := h.2 b
        simp only [openOf, lookup_store_other _ _ _ _ hb, leasedOf_append] at this ⊢
        have : leasedOf b [⟨a, some c⟩] = 0 := by
          have : ¬ a = b := fun e => hb e.symm
          simp [leasedOf, this]
        omega
  | none =>
    have hrest := popUsable_none cfg now _ _ _ hp
    subst hrest
    constructor
    · simp; omega
    · intro b
      by_cases hb : b = a
      · subst hb
        simp only [openOf, lookup_store_same, leasedOf_append, List.length_nil]
        have h1 := leasedOf_le b p.leases
        have : leasedOf b [⟨b, some ⟨p.nextId, b, now, now, [], false⟩⟩] = 1 := by simp [leasedOf]
        omega
      · have := h.2 b
        simp only [openOf, lookup_store_other _ _ _ _ hb, leasedOf_append] at this ⊢
        have : leasedOf b [⟨a, some ⟨p.nextId, a, now, now, [], false⟩⟩] = 0 := by
          have : ¬ a = b := fun e => hb e.symm
          simp [leasedOf, this]
        omega

theorem inv_release (cfg : Cfg) (now i : Nat) (ka : Bool) (p : Pool) (h : Inv cfg p) :
    Inv cfg (release now i ka p) := by
  unfold release
  cases hl : p.leases[i]? with
  | none => simpa using h
  | some l =>
    obtain ⟨a, oc⟩ := l
    cases oc with
    | none => simpa using h
    | some c =>
      simp only []
      cases ka with
      | true =>
        simp only [if_true]
        constructor
        · simp [length_setAt]; exact h.1
        · intro b
          have hs := leasedOf_setAt_none b p.leases i a c hl
          have := h.2 b
          by_cases hb : b = a
          · subst hb
            simp only [openOf, lookup_store_same, List.length_append, List.length_cons, List.length_nil] at this ⊢
            simp only [if_true] at hs
            omega
          · have hne : ¬ a = b := fun e => hb e.symm
            simp only [openOf, lookup_store_other _ _ _ _ hb] at this ⊢
            simp only [hne, if_false] at hs
            omega
      | false =>
        simp only [Bool.false_eq_true, if_false]
        constructor
        · simp [length_setAt]; exact h.1
        · intro b
          have hs := leasedOf_setAt_none b p.leases i a c hl
          have := h.2 b
          simp only [openOf] at this ⊢
          omega

theorem inv_dropLease (cfg : Cfg) (i : Nat) (p : Pool) (h : Inv cfg p) : Inv cfg (dropLease i p) := by
  constructor
  · have := List.length_eraseIdx_le p.leases i
    simp only [dropLease]; exact Nat.le_trans this h.1
  · intro b
    have := h.2 b
    have := leasedOf_eraseIdx_le b p.leases i
    simp only [openOf, dropLease] at *
    omega

theorem inv_touch (cfg : Cfg) (id : Nat) (f : Conn → Conn) (p : Pool) (h : Inv cfg p) :
    Inv cfg (touchConn id f p) := by
  constructor
  · simp [touchConn]; exact h.1
  · intro b
    have := h.2 b
    simp only [openOf, touchConn, touch_lookup_length, touch_leasedOf] at *
    exact this

theorem inv_step (cfg : Cfg) (p : Pool) (e : Ev) (h : Inv cfg p) : Inv cfg (stepEv cfg p e) := by
  cases e with
  | acquire a now =>
    simp only [stepEv]
    split
    · next hc => exact inv_acquire cfg now a p h hc
    · exact h
  | release i ka now => exact inv_release cfg now i ka p h
  | dropLease i => exact inv_dropLease cfg i p h
  | peerSend id bs => exact inv_touch cfg id _ p h
  | peerClose id => exact inv_touch cfg id _ p h

theorem inv_run (cfg : Cfg) (evs : List Ev) : Inv cfg (runEvs cfg evs) := by
  have : ∀ p, Inv cfg p → Inv cfg (evs.foldl (stepEv cfg) p) := by
    induction evs with
    | nil => intro p h; exact h
    | cons e es ih => intro p h; exact ih _ (inv_step cfg p e h)
  exact this _ (inv_empty cfg)

/-- **C17_inuse_le_limit** — over every history of pool calls and peer actions, the number of
requests holding a permit (and so possibly a connection) never exceeds the configured limit. -/
theorem C17_inuse_le_limit (cfg : Cfg) (evs : List Ev) : inUse (runEvs cfg evs) ≤ cfg.limit :=
  (inv_run cfg evs).1

/-- **C17_open_per_authority_le_limit** — over every history, the sockets open towards any one
authority (idle in its deque + held by requests) never exceed the limit: a new socket is only
opened after the authority's deque has been emptied by the pop loop. -/
theorem C17_open_per_authority_le_limit (cfg : Cfg) (evs : List Ev) (a : Nat) :
    openOf a (runEvs cfg evs) ≤ cfg.limit :=
  (inv_run cfg evs).2 a

example : openOf 0 (runEvs ⟨2, 15000, 75000⟩ [.acquire 0 1, .acquire 0 1, .acquire 0 1, .release 0 true 2]) = 2 := by
  decide

/-
**C17_open_le_limit** (full statement, FALSE of the code — DESIGN §6 F9, known finding
`open-sockets-exceed-limit-idle-other-authority`):

    theorem C17_open_le_limit (cfg : Cfg) (evs : List Ev) : openCount (runEvs cfg evs) ≤ cfg.limit

An idle pooled connection holds no permit and is only looked at by requests to its own
authority; `witness_open_exceeds_limit` is the two-authority history. What does hold is the
bound per authority above, and the total bound when one authority is used (`_partial` below).
-/

/-- every `acquire` in the history goes to authority `a` -/
def OnlyAuth (a : Nat) : List Ev → Prop
  | [] => True
  | .acquire b _ :: es => b = a ∧ OnlyAuth a es
  | _ :: es => OnlyAuth a es

/-- shape of a pool that has only ever served authority `a` -/
def Single (a : Nat) (p : Pool) : Prop :=
  (p.avail = [] ∨ ∃ v, p.avail = [(a, v)]) ∧ ∀ l ∈ p.leases, l.auth = a

theorem single_open (a : Nat) (p : Pool) (h : Single a p) : openCount p = openOf a p := by
  obtain ⟨hav, hl⟩ := h
  have hleased : (leasedConns p).length = leasedOf a p.leases := by
    unfold leasedConns leasedOf
    generalize p.leases = ls at hl
    induction ls with
    | nil => simp
    | cons l ls ih =>
      have hla : l.auth = a := hl l List.mem_cons_self
      have ih' := ih (fun x hx => hl x (List.mem_cons_of_mem _ hx))
      cases hc : l.conn with
      | none => simp [hc, ih']
      | some c => simp [hc, hla, ih']
  rcases hav with h0 | ⟨v, hv⟩
  · simp [openCount, openOf, idleConns, h0, lookup, hleased]
  · simp [openCount, openOf, idleConns, hv, lookup, hleased]

theorem single_store (a : Nat) (v : List Conn) (m : List (Nat × List Conn))
    (h : m = [] ∨ ∃ w, m = [(a, w)]) : store a v m = [(a, v)] := by
  rcases h with h | ⟨w, h⟩ <;> subst h <;> simp [store]

theorem single_step (cfg : Cfg) (a : Nat) (p : Pool) (e : Ev) (h : Single a p)
    (he : ∀ b now, e = .acquire b now → b = a) : Single a (stepEv cfg p e) := by
  cases e with
  | acquire b now =>
    have hb : b = a := he b now rfl
    subst hb
    simp only [stepEv]
    split
    · unfold acquire
      generalize popUsable cfg now (lookup b p.avail) = r
      obtain ⟨r1, rest, closed⟩ := r
      cases r1 with
      | some c =>
        refine ⟨Or.inr ⟨rest, single_store b rest p.avail h.1⟩, ?_⟩
        intro l hl
        simp only [List.mem_append, List.mem_singleton] at hl
        rcases hl with hl | hl
        · exact h.2 l hl
        · subst hl; rfl
      | none =>
        refine ⟨Or.inr ⟨rest, single_store b rest p.avail h.1⟩, ?_⟩
        intro l hl
        simp only [List.mem_append, List.mem_singleton] at hl
        rcases hl with hl | hl
        · exact h.2 l hl
        · subst hl; rfl
    · exact h
  | release i ka now =>
    simp only [stepEv, release]
    cases hl : p.leases[i]? with
    | none => simpa using h
    | some l =>
      obtain ⟨b, oc⟩ := l
      have hb : b = a := h.2 ⟨b, oc⟩ (List.mem_of_getElem? hl)
      subst hb
      have hmem : ∀ l ∈ setAt p.leases i ⟨b, none⟩, l.auth = b := by
        intro l hl'
        have : ∀ (ls : List Lease) (i : Nat), (∀ x ∈ ls, x.auth = b) → ∀ x ∈ setAt ls i ⟨b, none⟩, x.auth = b := by
          intro ls
          induction ls with
          | nil => intro i _ x hx; simp [setAt] at hx
          | cons y ys ih =>
            intro i hys x hx
            cases i with
            | zero =>
              simp only [setAt, List.mem_cons] at hx
              rcases hx with hx | hx
              · subst hx; rfl
              · exact hys x (List.mem_cons_of_mem _ hx)
            | succ n =>
              simp only [setAt, List.mem_cons] at hx
              rcases hx with hx | hx
              · subst hx; exact hys _ List.mem_cons_self
              · exact ih n (fun z hz => hys z (List.mem_cons_of_mem _ hz)) x hx
        exact this p.leases i h.2 l hl'
      cases oc with
      | none => simpa using h
      | some c =>
        simp only []
        cases ka with
        | true =>
          simp only [if_true]
          exact ⟨Or.inr ⟨_, single_store b _ p.avail h.1⟩, hmem⟩
        | false =>
          simp only [Bool.false_eq_true, if_false]
          exact ⟨h.1, hmem⟩
  | dropLease i =>
    refine ⟨h.1, ?_⟩
    intro l hl
    exact h.2 l (List.mem_of_mem_eraseIdx hl)
  | peerSend id bs =>
    constructor
    · rcases h.1 with h0 | ⟨v, hv⟩
      · left; simp [stepEv, touchConn, h0]
      · right; simp only [stepEv, touchConn, hv, List.map_cons, List.map_nil]; exact ⟨_, rfl⟩
    · intro l hl
      simp only [stepEv, touchConn, List.mem_map] at hl
      obtain ⟨l0, hl0, rfl⟩ := hl
      exact h.2 l0 hl0
  | peerClose id =>
    constructor
    · rcases h.1 with h0 | ⟨v, hv⟩
      · left; simp [stepEv, touchConn, h0]
      · right; simp only [stepEv, touchConn, hv, List.map_cons, List.map_nil]; exact ⟨_, rfl⟩
    · intro l hl
      simp only [stepEv, touchConn, List.mem_map] at hl
      obtain ⟨l0, hl0, rfl⟩ := hl
      exact h.2 l0 hl0

theorem single_run (cfg : Cfg) (a : Nat) (evs : List Ev) (h : OnlyAuth a evs) :
    Single a (runEvs cfg evs) := by
  have : ∀ p, Single a p → OnlyAuth a evs → Single a (evs.foldl (stepEv cfg) p) := by
    induction evs with
    | nil => intro p hp _; exact hp
    | cons e es ih =>
      intro p hp ho
      have hes : OnlyAuth a es := by
        cases e <;> simp only [OnlyAuth] at ho <;> first | exact ho.2 | exact ho
      refine ih hes _ (single_step cfg a p e hp ?_) hes
      intro b now heq
      subst heq
      simp only [OnlyAuth] at ho
      exact ho.1
  exact this _ ⟨Or.inl rfl, by simp [Pool.empty]⟩ h

/-- **C17_open_le_limit_partial** — extra hypothesis: every request of the history goes to one
authority. Then the sockets the client holds open never exceed the limit. -/
theorem C17_open_le_limit_partial (cfg : Cfg) (a : Nat) (evs : List Ev) (h : OnlyAuth a evs) :
    openCount (runEvs cfg evs) ≤ cfg.limit := by
  rw [single_open a _ (single_run cfg a evs h)]
  exact C17_open_per_authority_le_limit cfg evs a

example : OnlyAuth 0 [.acquire 0 1, .release 0 true 1, .dropLease 0, .peerClose 0, .acquire 0 2] := by
  simp [OnlyAuth]

/-- **witness_open_exceeds_limit** — F9 on the model: `limit = 1`; a request to authority 0
completes and its connection is pooled; a request to authority 1 then opens a second socket. -/
theorem witness_open_exceeds_limit :
    ¬ (openCount (runEvs ⟨1, 15000, 75000⟩
        [.acquire 0 1, .release 0 true 1, .dropLease 0, .acquire 1 2]) ≤ 1) := by
  decide

/-- **C17_reuse_only_clean** (first half of *no leftover*) — whatever the pool looks like, a
connection handed out *from the pool* had an empty receive queue, no FIN, and was within the
idle / lifetime limits at that moment: a socket holding unread bytes of an earlier exchange is
never given to a later request. -/
theorem C17_reuse_only_clean (cfg : Cfg) (now a : Nat) (p : Pool) (c : Conn) (p' : Pool)
    (h : acquire cfg now a p = (p', c, true)) :
    c.sock = [] ∧ c.peerClosed = false ∧ ineligible cfg now c = false := by
  unfold acquire at h
  generalize hp : popUsable cfg now (lookup a p.avail) = r at h
  obtain ⟨r1, rest, closed⟩ := r
  cases r1 with
  | none => simp at h
  | some d =>
    simp only [Prod.mk.injEq] at h
    obtain ⟨_, hd, _⟩ := h
    subst hd
    have := popUsable_some cfg now _ _ _ _ hp
    refine ⟨?_, ?_, this.2.1⟩
    · have h1 := this.1
      unfold check at h1
      by_cases hs : d.sock.isEmpty
      · simpa using hs
      · simp [hs] at h1
    · have h1 := this.1
      unfold check at h1
      by_cases hs : d.sock.isEmpty
      · simp only [hs, Bool.not_true, Bool.false_eq_true, if_false] at h1
        by_cases hc : d.peerClosed
        · simp [hc] at h1
        · simpa using hc
      · simp [hs] at h1

example : ∃ p c p', acquire ⟨1, 15000, 75000⟩ 5 0 p = (p', c, true) :=
  ⟨⟨[(0, [⟨7, 0, 1, 2, [], false⟩])], [], 8⟩, _, _, rfl⟩


/-! ### exclusive use of a socket -/

/-- for every authority: no socket id occurs twice among its idle connections and the connections
held by its requests, and every id was issued by this pool -/
def Excl (p : Pool) : Prop := ∀ a, (idsOf a p).Nodup ∧ ∀ i ∈ idsOf a p, i < p.nextId

theorem excl_empty : Excl Pool.empty := by
  intro a; simp [idsOf, Pool.empty, lookup, leasedIds]

theorem excl_acquire (cfg : Cfg) (now a : Nat) (p : Pool) (h : Excl p) : Excl (acquire cfg now a p).1 := by
  unfold acquire
  generalize hp : popUsable cfg now (lookup a p.avail) = r
  obtain ⟨r1, rest, closed⟩ := r
  cases r1 with
  | some c =>
    have hsub := popUsable_sublist cfg now _ _ _ _ hp
    intro b
    by_cases hb : b = a
    · subst hb
      obtain ⟨hnd, hlt⟩ := h b
      simp only [idsOf, lookup_store_same, leasedIds_append, leasedIds_single, if_true]
      have hsub' : ((c :: rest).map (·.id) ++ leasedIds b p.leases).Sublist (idsOf b p) :=
        (hsub.map _).append_right _
      have hperm : (rest.map (·.id) ++ (leasedIds b p.leases ++ [c.id])).Perm
          ((c :: rest).map (·.id) ++ leasedIds b p.leases) := by
        rw [← List.append_assoc]
        exact (List.perm_append_comm).trans (by simp)
      refine ⟨hperm.nodup_iff.2 (hsub'.nodup hnd), ?_⟩
      intro i hi
      exact hlt i (hsub'.subset ((hperm.mem_iff).1 hi))
    · have hne : ¬ a = b := fun e => hb e.symm
      obtain ⟨hnd, hlt⟩ := h b
      simp only [idsOf, lookup_store_other _ _ _ _ hb, leasedIds_append, leasedIds_single, hne, if_false,
        List.append_nil]
      exact ⟨hnd, hlt⟩
  | none =>
    have hrest := popUsable_none cfg now _ _ _ hp
    subst hrest
    intro b
    by_cases hb : b = a
    · subst hb
      obtain ⟨hnd, hlt⟩ := h b
      simp only [idsOf, lookup_store_same, leasedIds_append, leasedIds_single, if_true, List.map_nil,
        List.nil_append]
      have hl : ∀ i ∈ leasedIds b p.leases, i < p.nextId := fun i hi => hlt i (by simp [idsOf, hi])
      have hnd' : (leasedIds b p.leases).Nodup := (List.sublist_append_right _ _).nodup hnd
      refine ⟨?_, ?_⟩
      · rw [List.nodup_append]
        refine ⟨hnd', by simp, ?_⟩
        intro x hx y hy
        simp only [List.mem_singleton] at hy
        subst hy
        exact Nat.ne_of_lt (hl x hx)
      · intro i hi
        simp only [List.mem_append, List.mem_singleton] at hi
        rcases hi with hi | hi
        · exact Nat.lt_succ_of_lt (hl i hi)
        · subst hi; exact Nat.lt_succ_self _
    · have hne : ¬ a = b := fun e => hb e.symm
      obtain ⟨hnd, hlt⟩ := h b
      simp only [idsOf, lookup_store_other _ _ _ _ hb, leasedIds_append, leasedIds_single, hne, if_false,
        List.append_nil]
      exact ⟨hnd, fun i hi => Nat.lt_succ_of_lt (hlt i hi)⟩

theorem excl_release (now i : Nat) (ka : Bool) (p : Pool) (h : Excl p) : Excl (release now i ka p) := by
  unfold release
  cases hl : p.leases[i]? with
  | none => simpa using h
  | some l =>
    obtain ⟨a, oc⟩ := l
    cases oc with
    | none => simpa using h
    | some c =>
      simp only []
      obtain ⟨l1, l2, e1, e2⟩ := leasedIds_setAt_same p.leases i a c hl
      cases ka with
      | true =>
        simp only [if_true]
        intro b
        obtain ⟨hnd, hlt⟩ := h b
        by_cases hb : b = a
        · subst hb
          simp only [idsOf, lookup_store_same, List.map_append, List.map_cons, List.map_nil, e2] at hnd hlt ⊢
          simp only [e1] at hnd hlt
          have hperm : ((lookup b p.avail).map (·.id) ++ [c.id] ++ (l1 ++ l2)).Perm
              ((lookup b p.avail).map (·.id) ++ (l1 ++ c.id :: l2)) := by
            rw [List.append_assoc]
            apply List.Perm.append_left
            simpa using (List.perm_middle (a := c.id) (l₁ := l1) (l₂ := l2)).symm
          exact ⟨hperm.nodup_iff.2 hnd, fun i hi => hlt i ((hperm.mem_iff).1 hi)⟩
        · have hne : a ≠ b := fun e => hb e.symm
          simp only [idsOf, lookup_store_other _ _ _ _ hb, leasedIds_setAt_other b p.leases i a c hl hne]
          exact ⟨hnd, hlt⟩
      | false =>
        simp only [Bool.false_eq_true, if_false]
        intro b
        obtain ⟨hnd, hlt⟩ := h b
        by_cases hb : b = a
        · subst hb
          simp only [idsOf, e2]
          simp only [idsOf, e1] at hnd hlt
          have hsub : ((lookup b p.avail).map (·.id) ++ (l1 ++ l2)).Sublist
              ((lookup b p.avail).map (·.id) ++ (l1 ++ c.id :: l2)) :=
            (List.Sublist.refl _).append ((List.Sublist.refl l1).append (List.sublist_cons_self _ _))
          exact ⟨hsub.nodup hnd, fun i hi => hlt i (hsub.subset hi)⟩
        · have hne : a ≠ b := fun e => hb e.symm
          simp only [idsOf, leasedIds_setAt_other b p.leases i a c hl hne]
          exact ⟨hnd, hlt⟩

theorem excl_dropLease (i : Nat) (p : Pool) (h : Excl p) : Excl (dropLease i p) := by
  intro b
  obtain ⟨hnd, hlt⟩ := h b
  have hsub : (idsOf b (dropLease i p)).Sublist (idsOf b p) := by
    simp only [idsOf, dropLease]
    exact (List.Sublist.refl _).append (leasedIds_eraseIdx b p.leases i)
  exact ⟨hsub.nodup hnd, fun x hx => hlt x (hsub.subset hx)⟩

theorem excl_touch (id : Nat) (f : Conn → Conn) (hf : ∀ c, (f c).id = c.id) (p : Pool) (h : Excl p) :
    Excl (touchConn id f p) := by
  intro b
  have : idsOf b (touchConn id f p) = idsOf b p := by
    simp only [idsOf, touchConn, touch_idle_ids id f hf, touch_leased_ids id f hf]
  rw [this]
  exact h b

theorem excl_step (cfg : Cfg) (p : Pool) (e : Ev) (h : Excl p) : Excl (stepEv cfg p e) := by
  cases e with
  | acquire a now =>
    simp only [stepEv]
    split
    · exact excl_acquire cfg now a p h
    · exact h
  | release i ka now => exact excl_release now i ka p h
  | dropLease i => exact excl_dropLease i p h
  | peerSend id bs => exact excl_touch id (fun c => { c with sock := c.sock ++ bs }) (fun _ => rfl) p h
  | peerClose id => exact excl_touch id (fun c => { c with peerClosed := true }) (fun _ => rfl) p h

/-- **C17_conn_exclusive** — over every history: within an authority no socket is at the same time
idle in the pool and held by a request, nor held by two requests, nor pooled twice; a connection
handed to a request has left the pool, and one put back has left its request. -/
theorem C17_conn_exclusive (cfg : Cfg) (evs : List Ev) (a : Nat) : (idsOf a (runEvs cfg evs)).Nodup := by
  have : ∀ p, Excl p → Excl (evs.foldl (stepEv cfg) p) := by
    induction evs with
    | nil => intro p h; exact h
    | cons e es ih => intro p h; exact ih _ (excl_step cfg p e h)
  exact (this _ excl_empty a).1

example : idsOf 0 (runEvs ⟨2, 15000, 75000⟩ [.acquire 0 1, .acquire 0 1, .release 0 true 2, .dropLease 0, .acquire 0 3])
    = [1, 0] := by decide

/-! ## Part 2 — the body: all byte streams, all segmentations, all close points

`runBody k buf0 segs closed` is the model of `PlStream` over `Framed<_, ClientPayloadCodec>`:
`buf0` is what the head read left in the buffer, `segs` are the following socket reads (any
number, any sizes), `closed` says whether the peer closes after them. `runBytes` is the
byte-at-a-time reading of the same decoder (`Proofs/ClientDecode.lean`, proved equal to the
code-shaped bulk decoder), used here as the definition of "the framed end is reached". -/

/-- **C17_segmentation_independent** — what is delivered and how the stream ends depends only on
the concatenated bytes (and on whether the peer closed), not on how the reads cut them — for
every decoder state, every pair of segmentations, including 1-byte reads and a cut anywhere
inside a chunk-size line, a CRLF or the data. -/
theorem C17_segmentation_independent (k : Kind) (hwf : WF k) (b0 b0' : Bytes) (segs segs' : List Bytes)
    (closed bodiless : Bool) (h : b0 ++ flat segs = b0' ++ flat segs') :
    (runBody k b0 segs closed bodiless).delivered = (runBody k b0' segs' closed bodiless).delivered ∧
    (runBody k b0 segs closed bodiless).fin = (runBody k b0' segs' closed bodiless).fin := by
  have h1 := runBody_closed_form k hwf b0 segs closed bodiless
  have h2 := runBody_closed_form k hwf b0' segs' closed bodiless
  simp only [] at h1 h2
  rw [h] at h1
  exact ⟨h1.1.trans h2.1.symm, h1.2.trans h2.2.symm⟩

example : (runBody (.chunked .size 0) [51, 13] [[10, 97], [98, 99, 13, 10, 48, 13], [10, 13, 10]] false).delivered
    = [97, 98, 99] := by decide

/-- **C17_complete_or_error** — for a body framed by Content-Length or by chunked coding
(`fam k ≠ 2`), for every byte stream, every segmentation and every close point:
* the stream ends cleanly (`complete`: the only end after which `body()` returns `Ok`) exactly
  when the decoder's framed end lies inside the bytes received, and the bytes delivered are
  exactly the bytes decoded up to there;
* if the peer closes before that, the end is an error (`incomplete` = `PayloadError::Incomplete`,
  or `ioError` for a syntax error seen earlier) — never a clean end, never a silent wait;
* the "ends with the connection" outcome does not exist for these framings. -/
theorem C17_complete_or_error (k : Kind) (hwf : WF k) (hk : fam k ≠ 2) (b0 : Bytes) (segs : List Bytes)
    (closed : Bool) :
    ((runBody k b0 segs closed).fin = .complete ↔ (runBytes k (b0 ++ flat segs) []).st = .done) ∧
    (runBody k b0 segs closed).delivered = (runBytes k (b0 ++ flat segs) []).out ∧
    (closed = true → (runBytes k (b0 ++ flat segs) []).st ≠ .done →
      (runBody k b0 segs closed).fin = .incomplete ∨ (runBody k b0 segs closed).fin = .ioError) ∧
    (runBody k b0 segs closed).fin ≠ .closeDelimited := by
  have h := runBody_closed_form k hwf b0 segs closed
  simp only [] at h
  obtain ⟨hout, hfin⟩ := h
  have hkind : (runBytes k (b0 ++ flat segs) []).st = .more → (runBytes k (b0 ++ flat segs) []).kind ≠ .eof := by
    intro hm he
    have := runBytes_fam k (b0 ++ flat segs) [] (by rw [hm]; decide)
    rw [he] at this
    exact hk this.symm
  cases hst : (runBytes k (b0 ++ flat segs) []).st with
  | done => rw [hst] at hfin; simp [hfin, hout]
  | failed => rw [hst] at hfin; simp [hfin, hout]
  | more =>
    rw [hst] at hfin
    have hne := hkind hst
    cases closed <;> simp [hfin, hout, hne]

example : WF (.length 10) ∧ fam (.length 10) ≠ 2 := by simp [WF, fam]

/-- **C17_length_exact** — Content-Length `n`: with at least `n` bytes the body is their first
`n` and the end is clean (everything after is left over); with fewer, every byte received is
passed on and then the close is reported as `Incomplete` (or the client keeps waiting while the
connection stays open) — for every segmentation. -/
theorem C17_length_exact (n : Nat) (b0 : Bytes) (segs : List Bytes) (closed : Bool) :
    (n ≤ (b0 ++ flat segs).length →
      (runBody (.length n) b0 segs closed).delivered = (b0 ++ flat segs).take n ∧
      (runBody (.length n) b0 segs closed).fin = .complete) ∧
    ((b0 ++ flat segs).length < n →
      (runBody (.length n) b0 segs closed).delivered = b0 ++ flat segs ∧
      (runBody (.length n) b0 segs closed).fin = if closed then .incomplete else .pending) := by
  have h := runBody_closed_form (.length n) (by simp [WF]) b0 segs closed
  simp only [runBytes_length] at h
  constructor
  · intro hle
    simp only [hle, if_true] at h
    exact h
  · intro hlt
    have : ¬ n ≤ (b0 ++ flat segs).length := by omega
    simp only [this, if_false] at h
    refine ⟨h.1, ?_⟩
    rw [h.2]
    simp

/-- **C17_chunked_exact** — chunked coding: if the bytes received start with the wire form of
the chunks `cs` (hex size, CRLF, data, CRLF … `0` CRLF CRLF), then — whatever the segmentation and
whatever follows — exactly `cs` joined is delivered and the end is clean. -/
theorem C17_chunked_exact (cs : List Bytes) (rest b0 : Bytes) (segs : List Bytes) (closed : Bool)
    (hcs : ∀ c ∈ cs, c ≠ [] ∧ c.length < u64Bound)
    (h : b0 ++ flat segs = encodeChunked cs ++ rest) :
    (runBody (.chunked .size 0) b0 segs closed).delivered = flat cs ∧
    (runBody (.chunked .size 0) b0 segs closed).fin = .complete := by
  have hc := runBody_closed_form (.chunked .size 0) (by simp [WF]) b0 segs closed
  simp only [h, runBytes_encodeChunked cs rest [] hcs, List.nil_append] at hc
  exact hc

example : encodeChunked [[97, 98, 99]] = [51, 13, 10, 97, 98, 99, 13, 10, 48, 13, 10, 13, 10] := by decide

/-- **C17_truncated_is_error** — let `whole` be a byte string that is exactly one framed body
(the decoder reaches its end on the last byte). If the peer closes after any *strict prefix* of
it — at every byte offset, under every segmentation — the client reports
`PayloadError::Incomplete`; it never returns the bytes so far as a success. -/
theorem C17_truncated_is_error (k : Kind) (hwf : WF k) (hk : fam k ≠ 2) (whole : Bytes)
    (hdone : (runBytes k whole []).st = .done) (hexact : (runBytes k whole []).buf = [])
    (b0 : Bytes) (segs : List Bytes) (suffix : Bytes) (hsuf : suffix ≠ [])
    (hpre : (b0 ++ flat segs) ++ suffix = whole) :
    (runBody k b0 segs true).fin = .incomplete := by
  have happ := runBytes_append k (b0 ++ flat segs) suffix []
  rw [hpre] at happ
  have hcf := runBody_closed_form k hwf b0 segs true
  simp only [] at hcf
  cases hst : (runBytes k (b0 ++ flat segs) []).st with
  | done =>
    rw [hst] at happ
    simp only [] at happ
    rw [happ] at hexact
    simp only [List.append_eq_nil_iff] at hexact
    exact absurd hexact.2 hsuf
  | failed =>
    rw [hst] at happ
    simp only [] at happ
    rw [happ, hst] at hdone
    exact absurd hdone (by decide)
  | more =>
    have hne : (runBytes k (b0 ++ flat segs) []).kind ≠ .eof := by
      intro he
      have := runBytes_fam k (b0 ++ flat segs) [] (by rw [hst]; decide)
      rw [he] at this
      exact hk this.symm
    rw [hcf.2, hst]
    simp [hne]

/-- every strict prefix of a chunked message, cut anywhere (inside a size line, between CR and
LF, inside the data, before the final CRLF), closed there ⇒ `Incomplete` -/
theorem C17_truncated_chunked_is_error (cs : List Bytes) (hcs : ∀ c ∈ cs, c ≠ [] ∧ c.length < u64Bound)
    (b0 : Bytes) (segs : List Bytes) (suffix : Bytes) (hsuf : suffix ≠ [])
    (hpre : (b0 ++ flat segs) ++ suffix = encodeChunked cs) :
    (runBody (.chunked .size 0) b0 segs true).fin = .incomplete := by
  have hr := runBytes_encodeChunked cs [] [] hcs
  simp only [List.append_nil] at hr
  exact C17_truncated_is_error (.chunked .size 0) (by simp [WF]) (by simp [fam]) (encodeChunked cs)
    (by rw [hr]) (by rw [hr]) b0 segs suffix hsuf hpre

example : (runBody (.chunked .size 0) [] [[51, 13, 10, 97, 98]] true).fin = .incomplete := by decide
example : (runBody (.length 10) [97, 98, 99] [] true).fin = .incomplete := by decide

/-- **C17_until_close** — the counterpart that keeps the F8 repair honest: a body that is framed
by the end of the connection (HTTP/1.0 without Content-Length) delivers every byte received and
ends cleanly when the peer closes; its connection is never pooled (see `C17_release_iff`). -/
theorem C17_until_close (b0 : Bytes) (segs : List Bytes) :
    (runBody .eof b0 segs true).delivered = b0 ++ flat segs ∧
    (runBody .eof b0 segs true).fin = .closeDelimited := by
  have h := runBody_closed_form .eof (by simp [WF]) b0 segs true
  simp only [runBytes_eof_all, List.nil_append] at h
  simpa using h


/-- **C17_bodiless_status_end** — a response whose status cannot have a body (1xx, 204, 304; RFC 7230
§3.3.3 rule 1) may still announce a Content-Length (a 304 does so legitimately). The code runs the
decoder chosen from the headers (behaviour pinned by the suite's `not_modified_spec_h1`), but with
`Flags::BODILESS_STATUS` the end of the connection is a clean end, never `Incomplete`: the F8
repair applies exactly to the statuses whose Content-Length / chunked coding frames a body
(`C17_complete_or_error`, `bodiless = false`). -/
theorem C17_bodiless_status_end (k : Kind) (hwf : WF k) (b0 : Bytes) (segs : List Bytes) :
    (runBody k b0 segs true true).delivered = (runBytes k (b0 ++ flat segs) []).out ∧
    ((runBody k b0 segs true true).fin = .complete ∨ (runBody k b0 segs true true).fin = .closeDelimited ∨
     (runBody k b0 segs true true).fin = .ioError) := by
  have h := runBody_closed_form k hwf b0 segs true true
  simp only [] at h
  refine ⟨h.1, ?_⟩
  rw [h.2]
  cases (runBytes k (b0 ++ flat segs) []).st <;> simp

example : (runBody (.length 24) [] [] true true).fin = .closeDelimited := by decide

/-! ## Part 3 — one exchange (`send_request` + the caller's use of the payload) -/

/-- the response as read off the segments: head, framing decision, what is left for the body -/
structure Reading where
  h : Head
  f : Framing
  rest0 : Bytes
  rest : List Bytes

def readHead (segs : List Bytes) : Option Reading :=
  match headPhase [] segs with
  | (.ok h rest0, _, rest) =>
    match responseFraming h with
    | some f => some ⟨h, f, rest0, rest⟩
    | none => none
  | _ => none

/-- the only payload decoders a response head can produce -/
def HeadKind (k : Kind) : Prop := k = .chunked .size 0 ∨ (∃ n, k = .length n) ∨ k = .eof

theorem framing_kinds (h : Head) (f : Framing) (hf : responseFraming h = some f) :
    f.ptype = .none ∨ (∃ k, f.ptype = .payload k ∧ HeadKind k) ∨ (∃ k, f.ptype = .stream k ∧ HeadKind k) := by
  unfold responseFraming at hf
  cases hh : hdrFold h.v11 {} h.headers with
  | none => simp [hh] at hf
  | some a =>
    simp only [hh] at hf
    -- the three-way result of `set_headers`
    generalize hlen : (if a.chunked = true then some (Kind.chunked ChSt.size 0)
        else if a.upgradeWs = true then none
        else match a.cl with
          | some 0 => none
          | some n => some (Kind.length n)
          | none => none) = len at hf
    have hlk : ∀ k, len = some k → HeadKind k := by
      intro k hk
      subst hlen
      split at hk
      · simp at hk; subst hk; exact Or.inl rfl
      · split at hk
        · simp at hk
        · split at hk
          · simp at hk
          · simp at hk; subst hk; exact Or.inr (Or.inl ⟨_, rfl⟩)
          · simp at hk
    cases len with
    | some k =>
      simp only [Option.some.injEq] at hf
      subst hf
      exact Or.inr (Or.inl ⟨k, rfl, hlk k rfl⟩)
    | none =>
      simp only [] at hf
      split at hf
      · simp at hf; subst hf; exact Or.inr (Or.inr ⟨.eof, rfl, Or.inr (Or.inr rfl)⟩)
      · split at hf
        · simp at hf; subst hf; exact Or.inr (Or.inl ⟨.eof, rfl, Or.inr (Or.inr rfl)⟩)
        · simp at hf; subst hf; exact Or.inl rfl

theorem headKind_wf (k : Kind) (h : HeadKind k) : WF k := by
  rcases h with h | ⟨n, h⟩ | h <;> subst h <;> simp [WF]

theorem bodyKind_head (o : ReqOpts) (h : Head) (f : Framing) (k : Kind)
    (hf : responseFraming h = some f) (hk : bodyKind o f = some k) : HeadKind k := by
  unfold bodyKind at hk
  by_cases hhd : o.isHead = true
  · simp [hhd] at hk
  · simp only [hhd, Bool.false_eq_true, if_false] at hk
    rcases framing_kinds h f hf with h0 | ⟨k', h1, h2⟩ | ⟨k', h1, h2⟩
    · simp [h0] at hk
    · simp [h1] at hk; subst hk; exact h2
    · simp [h1] at hk; subst hk; exact h2


/-- how the body stream ended, read off the byte automaton -/
def bodyEndOf (k : Kind) (stream : Bytes) (closed bodiless : Bool) : BodyEnd :=
  match (runBytes k stream []).st with
  | .done => .complete
  | .failed => .ioError
  | .more =>
    if closed then (if (runBytes k stream []).kind = .eof || bodiless then .closeDelimited else .incomplete)
    else .pending

theorem exchange_noBody (o : ReqOpts) (mode : Mode) (segs : List Bytes) (closed : Bool)
    (h : Head) (rest0 buf : Bytes) (rest : List Bytes) (f : Framing)
    (hh : headPhase [] segs = (.ok h rest0, buf, rest)) (hf : responseFraming h = some f)
    (hk : bodyKind o f = none) :
    (exchange o mode segs closed).released = codecKeepAlive o h f ∧
    (∀ st bs, (exchange o mode segs closed).outcome = .body st bs → st = h.status ∧ bs = []) := by
  unfold exchange
  simp only [hh, hf, hk]
  refine ⟨trivial, ?_⟩
  intro st bs
  cases mode with
  | full => simp only [Outcome.body.injEq]; intro e; exact ⟨e.1.symm, e.2.symm⟩
  | part n =>
    cases n with
    | zero => intro e; simp at e
    | succ m => simp only [Outcome.body.injEq]; intro e; exact ⟨e.1.symm, e.2.symm⟩

theorem exchange_body (o : ReqOpts) (mode : Mode) (segs : List Bytes) (closed : Bool)
    (h : Head) (rest0 buf : Bytes) (rest : List Bytes) (f : Framing) (k : Kind)
    (hh : headPhase [] segs = (.ok h rest0, buf, rest)) (hf : responseFraming h = some f)
    (hk : bodyKind o f = some k) :
    let out := (runBytes k (rest0 ++ flat rest) []).out
    let fin := bodyEndOf k (rest0 ++ flat rest) closed (bodilessStatus h.status)
    (exchange o mode segs closed).released =
      (!earlyDrop mode out.length && decide (fin = .complete) && codecKeepAlive o h f) ∧
    (∀ st bs, (exchange o mode segs closed).outcome = .body st bs →
      st = h.status ∧ bs = out ∧ earlyDrop mode out.length = false ∧ (fin = .complete ∨ fin = .closeDelimited)) := by
  have hwf := headKind_wf k (bodyKind_head o h f k hf hk)
  have hcf := runBody_closed_form k hwf rest0 rest closed (bodilessStatus h.status)
  simp only [] at hcf
  obtain ⟨hd, hfin⟩ := hcf
  have hfin' : (runBody k rest0 rest closed (bodilessStatus h.status)).fin =
      bodyEndOf k (rest0 ++ flat rest) closed (bodilessStatus h.status) := hfin
  intro out fin
  unfold exchange
  simp only [hh, hf, hk, hd]
  cases he : earlyDrop mode out.length with
  | true =>
    simp only [if_true, Bool.not_true, Bool.false_and, true_and]
    intro st bs e; simp at e
  | false =>
    simp only [Bool.false_eq_true, if_false, Bool.not_false, Bool.true_and]
    rw [hfin']
    have hfe : bodyEndOf k (rest0 ++ flat rest) closed (bodilessStatus h.status) = fin := rfl
    rw [hfe]
    cases hfc : fin with
    | complete =>
      refine ⟨by simp, ?_⟩
      intro st bs e
      simp only [Outcome.body.injEq] at e
      exact ⟨e.1.symm, e.2.symm, trivial, Or.inl rfl⟩
    | closeDelimited =>
      refine ⟨by simp, ?_⟩
      intro st bs e
      simp only [Outcome.body.injEq] at e
      exact ⟨e.1.symm, e.2.symm, trivial, Or.inr rfl⟩
    | incomplete => exact ⟨by simp, fun st bs e => by simp at e⟩
    | ioError => exact ⟨by simp, fun st bs e => by simp at e⟩
    | pending => exact ⟨by simp, fun st bs e => by simp at e⟩


theorem bodyEndOf_complete (k : Kind) (s : Bytes) (closed bodiless : Bool) :
    bodyEndOf k s closed bodiless = .complete ↔ (runBytes k s []).st = .done := by
  unfold bodyEndOf
  cases (runBytes k s []).st with
  | done => simp
  | failed => simp
  | more =>
    cases closed
    · simp
    · by_cases he : (runBytes k s []).kind = .eof <;> cases bodiless <;> simp [he]

theorem bodyEndOf_closeDelimited (k : Kind) (s : Bytes) (closed bodiless : Bool)
    (h : bodyEndOf k s closed bodiless = .closeDelimited) :
    (k = .eof ∨ bodiless = true) ∧ closed = true ∧ (runBytes k s []).st = .more := by
  unfold bodyEndOf at h
  cases hst : (runBytes k s []).st with
  | done => simp [hst] at h
  | failed => simp [hst] at h
  | more =>
    simp only [hst] at h
    cases closed with
    | false => simp at h
    | true =>
      cases bodiless with
      | true => exact ⟨Or.inr rfl, rfl, rfl⟩
      | false =>
        by_cases he : (runBytes k s []).kind = .eof
        · have hf := runBytes_fam k s [] (by rw [hst]; decide)
          rw [he] at hf
          refine ⟨Or.inl ?_, rfl, rfl⟩
          cases k <;> simp [fam] at hf
          rfl
        · simp [he] at h

/-- **C17_release_iff** — a connection goes back into the pool (`on_release(true)`) if and only if
* the response head was complete and its framing valid,
* the codec says keep-alive (request did not ask for close; response did not say close / upgrade;
  an HTTP/1.0 response said keep-alive), and
* the response has no payload, or the payload decoder produced its `Eof` item — the framed end of
  the body was reached in the bytes received — and the caller polled that far (it did not drop
  the response early).
In every other case (head error, body error, early drop, close-delimited body, `Connection:
close`) the io is dropped with the `H1Connection` and never reaches `available`. -/
theorem C17_release_iff (o : ReqOpts) (mode : Mode) (segs : List Bytes) (closed : Bool) :
    (exchange o mode segs closed).released = true ↔
      ∃ rd, readHead segs = some rd ∧ codecKeepAlive o rd.h rd.f = true ∧
        (bodyKind o rd.f = none ∨
         ∃ k, bodyKind o rd.f = some k ∧ (runBytes k (rd.rest0 ++ flat rd.rest) []).st = .done ∧
              earlyDrop mode (runBytes k (rd.rest0 ++ flat rd.rest) []).out.length = false) := by
  generalize hp : headPhase [] segs = r
  obtain ⟨hr, buf, rest⟩ := r
  cases hr with
  | needMore =>
    have h1 : (exchange o mode segs closed).released = false := by
      unfold exchange; simp only [hp]; split <;> (try split) <;> rfl
    have h2 : readHead segs = none := by simp [readHead, hp]
    simp [h1, h2]
  | tooLarge =>
    have h1 : (exchange o mode segs closed).released = false := by unfold exchange; simp only [hp]; rfl
    have h2 : readHead segs = none := by simp [readHead, hp]
    simp [h1, h2]
  | bad =>
    have h1 : (exchange o mode segs closed).released = false := by unfold exchange; simp only [hp]; rfl
    have h2 : readHead segs = none := by simp [readHead, hp]
    simp [h1, h2]
  | ok h rest0 =>
    cases hf : responseFraming h with
    | none =>
      have h1 : (exchange o mode segs closed).released = false := by unfold exchange; simp only [hp, hf]; rfl
      have h2 : readHead segs = none := by simp [readHead, hp, hf]
      simp [h1, h2]
    | some f =>
      have h2 : readHead segs = some ⟨h, f, rest0, rest⟩ := by simp [readHead, hp, hf]
      cases hk : bodyKind o f with
      | none =>
        have h1 := (exchange_noBody o mode segs closed h rest0 buf rest f hp hf hk).1
        rw [h1, h2]
        constructor
        · intro hka; exact ⟨_, rfl, hka, Or.inl hk⟩
        · rintro ⟨rd, hrd, hka, _⟩
          simp only [Option.some.injEq] at hrd
          subst hrd; exact hka
      | some k =>
        have h1 := (exchange_body o mode segs closed h rest0 buf rest f k hp hf hk).1
        rw [h1, h2]
        constructor
        · intro hall
          simp only [Bool.and_eq_true, Bool.not_eq_eq_eq_not, Bool.not_true, decide_eq_true_eq] at hall
          obtain ⟨⟨he, hc⟩, hka⟩ := hall
          exact ⟨_, rfl, hka, Or.inr ⟨k, hk, (bodyEndOf_complete _ _ _ _).1 hc, he⟩⟩
        · rintro ⟨rd, hrd, hka, hcase⟩
          simp only [Option.some.injEq] at hrd
          subst hrd
          rcases hcase with hn | ⟨k', hk', hdone, he⟩
          · simp [hk] at hn
          · simp only [hk, Option.some.injEq] at hk'
            subst hk'
            simp only [Bool.and_eq_true, Bool.not_eq_eq_eq_not, Bool.not_true, decide_eq_true_eq]
            exact ⟨⟨he, (bodyEndOf_complete _ _ _ _).2 hdone⟩, hka⟩

/-- **C17_ok_body_is_framed_body** (`C17_complete_or_error` at the level of the whole exchange) —
whenever the caller ends up with `Ok(body)`:
* the response had no payload and `body` is empty, or
* the payload decoder reached its framed end inside the bytes received and `body` is exactly
  what it decoded up to there, or
* the body is delimited by the end of the connection (HTTP/1.0 without length, 101) — or the
  status is one that cannot have a body at all (1xx, 204, 304: their Content-Length promises
  nothing) — the peer did close, and `body` is everything decoded until then.
For Content-Length and chunked responses with any other status a short stream can therefore only
surface as an error. -/
theorem C17_ok_body_is_framed_body (o : ReqOpts) (mode : Mode) (segs : List Bytes) (closed : Bool)
    (st : Nat) (bs : Bytes) (hok : (exchange o mode segs closed).outcome = .body st bs) :
    ∃ rd, readHead segs = some rd ∧ st = rd.h.status ∧
      ((bodyKind o rd.f = none ∧ bs = []) ∨
       ∃ k, bodyKind o rd.f = some k ∧ bs = (runBytes k (rd.rest0 ++ flat rd.rest) []).out ∧
         ((runBytes k (rd.rest0 ++ flat rd.rest) []).st = .done ∨
          ((k = .eof ∨ bodilessStatus rd.h.status = true) ∧ closed = true))) := by
  generalize hp : headPhase [] segs = r at hok
  obtain ⟨hr, buf, rest⟩ := r
  cases hr with
  | needMore =>
    exfalso
    unfold exchange at hok; simp only [hp] at hok
    split at hok <;> (try split at hok) <;> simp [failed] at hok
  | tooLarge => exfalso; unfold exchange at hok; simp [hp, failed] at hok
  | bad => exfalso; unfold exchange at hok; simp [hp, failed] at hok
  | ok h rest0 =>
    cases hf : responseFraming h with
    | none => exfalso; unfold exchange at hok; simp [hp, hf, failed] at hok
    | some f =>
      have h2 : readHead segs = some ⟨h, f, rest0, rest⟩ := by simp [readHead, hp, hf]
      cases hk : bodyKind o f with
      | none =>
        have h1 := (exchange_noBody o mode segs closed h rest0 buf rest f hp hf hk).2 st bs hok
        exact ⟨_, h2, h1.1, Or.inl ⟨hk, h1.2⟩⟩
      | some k =>
        have h1 := (exchange_body o mode segs closed h rest0 buf rest f k hp hf hk).2 st bs hok
        obtain ⟨hst, hbs, _, hfin⟩ := h1
        refine ⟨_, h2, hst, Or.inr ⟨k, hk, hbs, ?_⟩⟩
        rcases hfin with hc | hc
        · exact Or.inl ((bodyEndOf_complete _ _ _ _).1 hc)
        · have := bodyEndOf_closeDelimited _ _ _ _ hc
          exact Or.inr ⟨this.1, this.2.1⟩

/-- **C17_no_leftover** — whichever way a request gets its connection, the socket's receive queue
is empty at that moment: a pooled connection is handed out only if the 2-byte probe found
nothing to read and no FIN (so unread bytes of an earlier exchange ⇒ `Tainted` ⇒ closed, never
reused), and otherwise the authority's deque has been emptied and a brand-new socket is opened.
Together with `exchange` starting from an empty `Framed` buffer (bytes read beyond the framed end
are dropped with the old `Framed`, see `Exchange.discarded`) and `C17_chunked_exact` /
`C17_length_exact` (nothing beyond the framed end is ever delivered), a later request never
reads leftovers of an earlier one. -/
theorem C17_no_leftover (cfg : Cfg) (now a : Nat) (p p' : Pool) (c : Conn) (reused : Bool)
    (h : acquire cfg now a p = (p', c, reused)) :
    c.sock = [] ∧ c.peerClosed = false ∧
    (reused = false → c.id = p.nextId ∧ lookup a p'.avail = []) := by
  cases reused with
  | true =>
    have := C17_reuse_only_clean cfg now a p c p' h
    exact ⟨this.1, this.2.1, by simp⟩
  | false =>
    unfold acquire at h
    generalize hp : popUsable cfg now (lookup a p.avail) = r at h
    obtain ⟨r1, rest, closed⟩ := r
    cases r1 with
    | some d => simp at h
    | none =>
      simp only [Prod.mk.injEq] at h
      obtain ⟨hp', hc, _⟩ := h
      subst hc; subst hp'
      have hrest := popUsable_none cfg now _ _ _ hp
      subst hrest
      exact ⟨rfl, rfl, fun _ => ⟨rfl, lookup_store_same _ _ _⟩⟩


/-! ### the hypotheses above are inhabited: concrete exchanges (kernel-evaluated) -/

/-- `HTTP/1.1 200 OK`, `content-length: 2`, body `ok` -/
def sampleOk : Bytes := [72, 84, 84, 80, 47, 49, 46, 49, 32, 50, 48, 48, 32, 79, 75, 13, 10, 99, 111, 110, 116, 101, 110, 116, 45, 108, 101, 110, 103, 116, 104, 58, 32, 50, 13, 10, 13, 10, 111, 107]

/-- the same head announcing 9 bytes, followed by 2 -/
def sampleShort : Bytes := [72, 84, 84, 80, 47, 49, 46, 49, 32, 50, 48, 48, 32, 79, 75, 13, 10, 99, 111, 110, 116, 101, 110, 116, 45, 108, 101, 110, 103, 116, 104, 58, 32, 57, 13, 10, 13, 10, 111, 107]

set_option maxRecDepth 100000 in
example : (exchange ⟨false, false⟩ .full [sampleOk] false).released = true := by decide

set_option maxRecDepth 100000 in
example : ∃ st bs, (exchange ⟨false, false⟩ .full [sampleOk.take 20, sampleOk.drop 20] false).outcome = .body st bs :=
  ⟨200, [111, 107], by decide⟩

set_option maxRecDepth 100000 in
/-- **witness_F8_repaired** — the F8 input (DESIGN §6: announced length not reached, then close):
the model of the repaired code reports `Incomplete` and does not pool the connection. (Before the
repair `decode_eof` ended the stream cleanly and the outcome was `Ok("ok")`.) -/
theorem witness_F8_repaired :
    (match (exchange ⟨false, false⟩ .full [sampleShort] true).outcome with
     | .bodyErr 200 .incomplete => true
     | _ => false) = true ∧
    (exchange ⟨false, false⟩ .full [sampleShort] true).released = false := by decide

set_option maxRecDepth 100000 in
example : (exchange ⟨false, false⟩ (.part 0) [sampleOk] false).released = false := by decide


/-- **C17_interim_100_transparent** — `Expect: 100-continue`: when the first head is a plain
`100 Continue` (no payload, connection left keep-alive), the outcome of the whole exchange —
body, error, release — is exactly that of the final response read on its own from what follows
the interim head. In particular whether a close before the framed end is an error is decided by
the FINAL head's status (`bodilessStatus` of the current head), never by the interim 1xx: all
theorems of Parts 2-3 apply to the final response unchanged. -/
theorem C17_interim_100_transparent (o : ReqOpts) (mode : Mode) (segs : List Bytes) (closed : Bool)
    (h : Head) (b buf : Bytes) (rest : List Bytes) (f : Framing)
    (hh : headPhase [] segs = (.ok h b, buf, rest)) (h100 : h.status = 100)
    (hf : responseFraming h = some f) (hp : f.ptype = .none) (hka : codecKeepAlive o h f = true) :
    exchangeX o true mode segs closed = exchange o mode (b :: rest) closed := by
  unfold exchangeX
  simp only [if_true, hh, h100, hf]
  cases f with
  | mk pt c =>
    simp only [] at hp
    subst hp
    simp only [hka, if_true]

/-- `HTTP/1.1 100 Continue CRLF CRLF` followed by `sampleShort` (announces 9, sends 2), then close -/
def sampleInterim : Bytes :=
  [72, 84, 84, 80, 47, 49, 46, 49, 32, 49, 48, 48, 32, 67, 111, 110, 116, 105, 110, 117, 101, 13, 10, 13, 10]

set_option maxRecDepth 100000 in
/-- **witness_interim_then_truncated** — the seeded-change input (C17-r3-1): after an interim
`100 Continue` a Content-Length body cut by the close is still `Incomplete`, not pooled -/
theorem witness_interim_then_truncated :
    (exchangeX ⟨false, false⟩ true .full [sampleInterim, sampleShort] true).outcome = .bodyErr 200 .incomplete ∧
    (exchangeX ⟨false, false⟩ true .full [sampleInterim ++ sampleShort] true).released = false := by decide

/-! ## Part 4 — every run of the correspondence driver is a pool history

`Model/ClientWorld.lean` is the environment the harness builds around the real client (request
programs, scripted servers). Its pool is changed by `stepEv` only; so the invariants of Part 1
hold at every point of every case the correspondence runs — for every request program, not just
the generated ones. -/

open ActixModel.ClientWorld in
theorem world_apply_hist (cfg : Cfg) (w : World) (es : List Ev)
    (h : w.pool = w.evs.foldl (stepEv cfg) Pool.empty) :
    (w.apply cfg es).pool = (w.apply cfg es).evs.foldl (stepEv cfg) Pool.empty := by
  simp only [World.apply, List.foldl_append, ← h]

/-- the world's pool is the fold of its recorded events -/
def Hist (cfg : Cfg) (w : ClientWorld.World) : Prop := w.pool = runEvs cfg w.evs

open ActixModel.ClientWorld in
theorem hist_stepReq (cfg : Cfg) (w : World) (a : Nat) (o : ReqOpts) (e : Bool) (m : Mode) (s : Script)
    (h : Hist cfg w) : Hist cfg (stepReq cfg w a o e m s) := by
  unfold stepReq Hist
  simp only [World.see]
  apply world_apply_hist
  simp only []
  apply world_apply_hist
  exact h

open ActixModel.ClientWorld in
theorem hist_stepWave (cfg : Cfg) (w : World) (auths : List Nat) (h : Hist cfg w) :
    Hist cfg (stepWave cfg w auths).1 := by
  unfold stepWave Hist
  simp only [World.see]
  apply world_apply_hist
  apply world_apply_hist
  simp only []
  apply world_apply_hist
  exact h

open ActixModel.ClientWorld in
theorem hist_runWaves (cfg : Cfg) (waves : List (List Nat)) : ∀ (w : World) (n : Nat), Hist cfg w →
    Hist cfg (runWaves cfg w n waves).1 := by
  induction waves with
  | nil => intro w n h; exact h
  | cons wv wvs ih =>
    intro w n h
    simp only [runWaves]
    exact ih _ _ (hist_stepWave cfg w wv h)

open ActixModel.ClientWorld in
theorem hist_stepPar (cfg : Cfg) (w : World) (auths : List Nat) (h : Hist cfg w) :
    Hist cfg (stepPar cfg w auths) := by
  unfold stepPar
  exact hist_runWaves cfg _ w 0 h

/-- **C17_driver_runs_are_histories** — for every request program, the pool the model driver
ends in is `runEvs` of the events it recorded: acquire / release / peerSend / peerClose /
dropLease in the order the harness' environment produces them. -/
theorem C17_driver_runs_are_histories (cfg : Cfg) (ops : List ClientWorld.Op) :
    (ClientWorld.runOps cfg ops).pool = runEvs cfg (ClientWorld.runOps cfg ops).evs := by
  have : ∀ w, Hist cfg w → Hist cfg (ops.foldl (ClientWorld.stepOp cfg) w) := by
    induction ops with
    | nil => intro w h; exact h
    | cons op rest ih =>
      intro w h
      simp only [List.foldl_cons]
      apply ih
      cases op with
      | bad => exact h
      | req a o e m s => exact hist_stepReq cfg w a o e m s h
      | par auths => exact hist_stepPar cfg w auths h
  exact this {} rfl

/-- hence, in every case the correspondence can run: requests holding a permit ≤ limit and
sockets per authority ≤ limit at the end of the program (and, the program being arbitrary, after
every prefix of it) -/
theorem C17_driver_inuse_le_limit (cfg : Cfg) (ops : List ClientWorld.Op) (a : Nat) :
    inUse (ClientWorld.runOps cfg ops).pool ≤ cfg.limit ∧
    openOf a (ClientWorld.runOps cfg ops).pool ≤ cfg.limit := by
  rw [C17_driver_runs_are_histories]
  exact ⟨C17_inuse_le_limit cfg _, C17_open_per_authority_le_limit cfg _ a⟩

end ActixModel.C17
