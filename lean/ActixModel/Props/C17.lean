import ActixModel.Proofs.Pool
import ActixModel.Proofs.ClientDecode
/-
C17 — HTTP client: complete body or error; safe reuse; bounded connections.

Models: `Model/ClientDecode.lean` (payload decoders + Framed/PlStream end-of-stream rule),
`Model/Client.lean` (one exchange: head, framing, release points), `Model/Pool.lean` (the pool).
Everything below is quantified over all byte streams / all segmentations / all close points /
all pool histories; `decide` is used only for the concrete `witness_*` counter-example.
-/
namespace ActixModel.C17
open ActixModel.Util ActixModel.Pool ActixModel.ClientDecode ActixModel.Client

/-! ## Part 1 — the pool: all histories -/

/-- what can happen to a pool: the client's own calls and the peers' actions on sockets the
client holds -/
inductive Ev where
  | acquire (a : Nat) (now : Nat)          -- `ConnectionPool::call`; waits while no permit is free
  | release (i : Nat) (keepAlive : Bool) (now : Nat)   -- `H1Connection::on_release` of lease `i`
  | dropLease (i : Nat)                    -- the `H1Connection` of lease `i` is dropped
  | peerSend (id : Nat) (bs : Bytes)       -- bytes arrive on socket `id`
  | peerClose (id : Nat)                   -- FIN arrives on socket `id`

def stepEv (cfg : Cfg) (p : Pool) : Ev → Pool
  | .acquire a now => if canAcquire cfg p then (acquire cfg now a p).1 else p
  | .release i ka now => release now i ka p
  | .dropLease i => dropLease i p
  | .peerSend id bs => touchConn id (fun c => { c with sock := c.sock ++ bs }) p
  | .peerClose id => touchConn id (fun c => { c with peerClosed := true }) p

def runEvs (cfg : Cfg) (evs : List Ev) : Pool := evs.foldl (stepEv cfg) Pool.empty

/-- the inductive invariant: permits handed out ≤ limit, and for every authority the sockets
open towards it (idle + held by a lease) ≤ limit -/
def Inv (cfg : Cfg) (p : Pool) : Prop :=
  p.leases.length ≤ cfg.limit ∧ ∀ a, openOf a p ≤ cfg.limit

theorem inv_empty (cfg : Cfg) : Inv cfg Pool.empty := by
  constructor
  · simp [Pool.empty]
  · intro a; simp [openOf, Pool.empty, lookup, leasedOf]

theorem inv_acquire (cfg : Cfg) (now a : Nat) (p : Pool) (h : Inv cfg p)
    (hc : canAcquire cfg p = true) : Inv cfg (acquire cfg now a p).1 := by
  have hlt : p.leases.length < cfg.limit := by simpa [canAcquire] using hc
  unfold acquire
  generalize hp : popUsable cfg now (lookup a p.avail) = r
  obtain ⟨r1, rest, closed⟩ := r
  have hlen := popUsable_length cfg now (lookup a p.avail)
  rw [hp] at hlen
  cases r1 with
  | some c =>
    simp only [Option.isSome_some, if_true] at hlen
    constructor
    · simp; omega
    · intro b
      by_cases hb : b = a
      · subst hb
        have := h.2 b
        simp only [openOf, lookup_store_same, leasedOf_append] at this ⊢
        have : leasedOf b [⟨b, some c⟩] = 1 := by simp [leasedOf]
        omega
      · have := h.2 b
        simp only [openOf, lookup_store_other _ _ _ _ hb, leasedOf_append] at this ⊢
        have : leasedOf b [⟨a, some c⟩] = 0 := by
          have : ¬ a = b := fun e => hb e.symm
          simp [leasedOf, this]
        omega
  | none =>
    have hrest := popUsable_none cfg now _ _ _ hp
    subst hrest
    constructor
    · simp; omega
    · intro b
      by_cases hb : b = a
      · subst hb
        simp only [openOf, lookup_store_same, leasedOf_append, List.length_nil]
        have h1 := leasedOf_le b p.leases
        have : leasedOf b [⟨b, some ⟨p.nextId, b, now, now, [], false⟩⟩] = 1 := by simp [leasedOf]
        omega
      · have := h.2 b
        simp only [openOf, lookup_store_other _ _ _ _ hb, leasedOf_append] at this ⊢
        have : leasedOf b [⟨a, some ⟨p.nextId, a, now, now, [], false⟩⟩] = 0 := by
          have : ¬ a = b := fun e => hb e.symm
          simp [leasedOf, this]
        omega

theorem inv_release (cfg : Cfg) (now i : Nat) (ka : Bool) (p : Pool) (h : Inv cfg p) :
    Inv cfg (release now i ka p) := by
  unfold release
  cases hl : p.leases[i]? with
  | none => simpa using h
  | some l =>
    obtain ⟨a, oc⟩ := l
    cases oc with
    | none => simpa using h
    | some c =>
      simp only []
      cases ka with
      | true =>
        simp only [if_true]
        constructor
        · simp [length_setAt]; exact h.1
        · intro b
          have hs := leasedOf_setAt_none b p.leases i a c hl
          have := h.2 b
          by_cases hb : b = a
          · subst hb
            simp only [openOf, lookup_store_same, List.length_append, List.length_cons, List.length_nil] at this ⊢
            simp only [if_true] at hs
            omega
          · have hne : ¬ a = b := fun e => hb e.symm
            simp only [openOf, lookup_store_other _ _ _ _ hb] at this ⊢
            simp only [hne, if_false] at hs
            omega
      | false =>
        simp only [Bool.false_eq_true, if_false]
        constructor
        · simp [length_setAt]; exact h.1
        · intro b
          have hs := leasedOf_setAt_none b p.leases i a c hl
          have := h.2 b
          simp only [openOf] at this ⊢
          omega

theorem inv_dropLease (cfg : Cfg) (i : Nat) (p : Pool) (h : Inv cfg p) : Inv cfg (dropLease i p) := by
  constructor
  · have := List.length_eraseIdx_le p.leases i
    simp only [dropLease]; exact Nat.le_trans this h.1
  · intro b
    have := h.2 b
    have := leasedOf_eraseIdx_le b p.leases i
    simp only [openOf, dropLease] at *
    omega

theorem inv_touch (cfg : Cfg) (id : Nat) (f : Conn → Conn) (p : Pool) (h : Inv cfg p) :
    Inv cfg (touchConn id f p) := by
  constructor
  · simp [touchConn]; exact h.1
  · intro b
    have := h.2 b
    simp only [openOf, touchConn, touch_lookup_length, touch_leasedOf] at *
    exact this

theorem inv_step (cfg : Cfg) (p : Pool) (e : Ev) (h : Inv cfg p) : Inv cfg (stepEv cfg p e) := by
  cases e with
  | acquire a now =>
    simp only [stepEv]
    split
    · next hc => exact inv_acquire cfg now a p h hc
    · exact h
  | release i ka now => exact inv_release cfg now i ka p h
  | dropLease i => exact inv_dropLease cfg i p h
  | peerSend id bs => exact inv_touch cfg id _ p h
  | peerClose id => exact inv_touch cfg id _ p h

theorem inv_run (cfg : Cfg) (evs : List Ev) : Inv cfg (runEvs cfg evs) := by
  have : ∀ p, Inv cfg p → Inv cfg (evs.foldl (stepEv cfg) p) := by
    induction evs with
    | nil => intro p h; exact h
    | cons e es ih => intro p h; exact ih _ (inv_step cfg p e h)
  exact this _ (inv_empty cfg)

/-- **C17_inuse_le_limit** — over every history of pool calls and peer actions, the number of
requests holding a permit (and so possibly a connection) never exceeds the configured limit. -/
theorem C17_inuse_le_limit (cfg : Cfg) (evs : List Ev) : inUse (runEvs cfg evs) ≤ cfg.limit :=
  (inv_run cfg evs).1

/-- **C17_open_per_authority_le_limit** — over every history, the sockets open towards any one
authority (idle in its deque + held by requests) never exceed the limit: a new socket is only
opened after the authority's deque has been emptied by the pop loop. -/
theorem C17_open_per_authority_le_limit (cfg : Cfg) (evs : List Ev) (a : Nat) :
    openOf a (runEvs cfg evs) ≤ cfg.limit :=
  (inv_run cfg evs).2 a

example : openOf 0 (runEvs ⟨2, 15000, 75000⟩ [.acquire 0 1, .acquire 0 1, .acquire 0 1, .release 0 true 2]) = 2 := by
  decide

/-
**C17_open_le_limit** (full statement, FALSE of the code — DESIGN §6 F9, known finding
`open-sockets-exceed-limit-idle-other-authority`):

    theorem C17_open_le_limit (cfg : Cfg) (evs : List Ev) : openCount (runEvs cfg evs) ≤ cfg.limit

An idle pooled connection holds no permit and is only looked at by requests to its own
authority; `witness_open_exceeds_limit` is the two-authority history. What does hold is the
bound per authority above, and the total bound when one authority is used (`_partial` below).
-/

/-- every `acquire` in the history goes to authority `a` -/
def OnlyAuth (a : Nat) : List Ev → Prop
  | [] => True
  | .acquire b _ :: es => b = a ∧ OnlyAuth a es
  | _ :: es => OnlyAuth a es

/-- shape of a pool that has only ever served authority `a` -/
def Single (a : Nat) (p : Pool) : Prop :=
  (p.avail = [] ∨ ∃ v, p.avail = [(a, v)]) ∧ ∀ l ∈ p.leases, l.auth = a

theorem single_open (a : Nat) (p : Pool) (h : Single a p) : openCount p = openOf a p := by
  obtain ⟨hav, hl⟩ := h
  have hleased : (leasedConns p).length = leasedOf a p.leases := by
    unfold leasedConns leasedOf
    generalize p.leases = ls at hl
    induction ls with
    | nil => simp
    | cons l ls ih =>
      have hla : l.auth = a := hl l List.mem_cons_self
      have ih' := ih (fun x hx => hl x (List.mem_cons_of_mem _ hx))
      cases hc : l.conn with
      | none => simp [List.filterMap_cons, List.filter_cons, hc, ih']
      | some c => simp [List.filterMap_cons, List.filter_cons, hc, hla, ih']
  rcases hav with h0 | ⟨v, hv⟩
  · simp [openCount, openOf, idleConns, h0, lookup, hleased]
  · simp [openCount, openOf, idleConns, hv, lookup, hleased]

theorem single_store (a : Nat) (v : List Conn) (m : List (Nat × List Conn))
    (h : m = [] ∨ ∃ w, m = [(a, w)]) : store a v m = [(a, v)] := by
  rcases h with h | ⟨w, h⟩ <;> subst h <;> simp [store]

theorem single_step (cfg : Cfg) (a : Nat) (p : Pool) (e : Ev) (h : Single a p)
    (he : ∀ b now, e = .acquire b now → b = a) : Single a (stepEv cfg p e) := by
  cases e with
  | acquire b now =>
    have hb : b = a := he b now rfl
    subst hb
    simp only [stepEv]
    split
    · unfold acquire
      generalize popUsable cfg now (lookup b p.avail) = r
      obtain ⟨r1, rest, closed⟩ := r
      cases r1 with
      | some c =>
        refine ⟨Or.inr ⟨rest, single_store b rest p.avail h.1⟩, ?_⟩
        intro l hl
        simp only [List.mem_append, List.mem_singleton] at hl
        rcases hl with hl | hl
        · exact h.2 l hl
        · subst hl; rfl
      | none =>
        refine ⟨Or.inr ⟨rest, single_store b rest p.avail h.1⟩, ?_⟩
        intro l hl
        simp only [List.mem_append, List.mem_singleton] at hl
        rcases hl with hl | hl
        · exact h.2 l hl
        · subst hl; rfl
    · exact h
  | release i ka now =>
    simp only [stepEv, release]
    cases hl : p.leases[i]? with
    | none => simpa using h
    | some l =>
      obtain ⟨b, oc⟩ := l
      have hb : b = a := h.2 ⟨b, oc⟩ (List.mem_of_getElem? hl)
      subst hb
      have hmem : ∀ l ∈ setAt p.leases i ⟨b, none⟩, l.auth = b := by
        intro l hl'
        have : ∀ (ls : List Lease) (i : Nat), (∀ x ∈ ls, x.auth = b) → ∀ x ∈ setAt ls i ⟨b, none⟩, x.auth = b := by
          intro ls
          induction ls with
          | nil => intro i _ x hx; simp [setAt] at hx
          | cons y ys ih =>
            intro i hys x hx
            cases i with
            | zero =>
              simp only [setAt, List.mem_cons] at hx
              rcases hx with hx | hx
              · subst hx; rfl
              · exact hys x (List.mem_cons_of_mem _ hx)
            | succ n =>
              simp only [setAt, List.mem_cons] at hx
              rcases hx with hx | hx
              · subst hx; exact hys _ List.mem_cons_self
              · exact ih n (fun z hz => hys z (List.mem_cons_of_mem _ hz)) x hx
        exact this p.leases i h.2 l hl'
      cases oc with
      | none => simpa using h
      | some c =>
        simp only []
        cases ka with
        | true =>
          simp only [if_true]
          exact ⟨Or.inr ⟨_, single_store b _ p.avail h.1⟩, hmem⟩
        | false =>
          simp only [Bool.false_eq_true, if_false]
          exact ⟨h.1, hmem⟩
  | dropLease i =>
    refine ⟨h.1, ?_⟩
    intro l hl
    exact h.2 l (List.mem_of_mem_eraseIdx hl)
  | peerSend id bs =>
    constructor
    · rcases h.1 with h0 | ⟨v, hv⟩
      · left; simp [stepEv, touchConn, h0]
      · right; simp only [stepEv, touchConn, hv, List.map_cons, List.map_nil]; exact ⟨_, rfl⟩
    · intro l hl
      simp only [stepEv, touchConn, List.mem_map] at hl
      obtain ⟨l0, hl0, rfl⟩ := hl
      exact h.2 l0 hl0
  | peerClose id =>
    constructor
    · rcases h.1 with h0 | ⟨v, hv⟩
      · left; simp [stepEv, touchConn, h0]
      · right; simp only [stepEv, touchConn, hv, List.map_cons, List.map_nil]; exact ⟨_, rfl⟩
    · intro l hl
      simp only [stepEv, touchConn, List.mem_map] at hl
      obtain ⟨l0, hl0, rfl⟩ := hl
      exact h.2 l0 hl0

theorem single_run (cfg : Cfg) (a : Nat) (evs : List Ev) (h : OnlyAuth a evs) :
    Single a (runEvs cfg evs) := by
  have : ∀ p, Single a p → OnlyAuth a evs → Single a (evs.foldl (stepEv cfg) p) := by
    induction evs with
    | nil => intro p hp _; exact hp
    | cons e es ih =>
      intro p hp ho
      have hes : OnlyAuth a es := by
        cases e <;> simp only [OnlyAuth] at ho <;> first | exact ho.2 | exact ho
      refine ih hes _ (single_step cfg a p e hp ?_) hes
      intro b now heq
      subst heq
      simp only [OnlyAuth] at ho
      exact ho.1
  exact this _ ⟨Or.inl rfl, by simp [Pool.empty]⟩ h

/-- **C17_open_le_limit_partial** — extra hypothesis: every request of the history goes to one
authority. Then the sockets the client holds open never exceed the limit. -/
theorem C17_open_le_limit_partial (cfg : Cfg) (a : Nat) (evs : List Ev) (h : OnlyAuth a evs) :
    openCount (runEvs cfg evs) ≤ cfg.limit := by
  rw [single_open a _ (single_run cfg a evs h)]
  exact C17_open_per_authority_le_limit cfg evs a

example : OnlyAuth 0 [.acquire 0 1, .release 0 true 1, .dropLease 0, .peerClose 0, .acquire 0 2] := by
  simp [OnlyAuth]

/-- **witness_open_exceeds_limit** — F9 on the model: `limit = 1`; a request to authority 0
completes and its connection is pooled; a request to authority 1 then opens a second socket. -/
theorem witness_open_exceeds_limit :
    ¬ (openCount (runEvs ⟨1, 15000, 75000⟩
        [.acquire 0 1, .release 0 true 1, .dropLease 0, .acquire 1 2]) ≤ 1) := by
  decide

/-- **C17_reuse_only_clean** (first half of *no leftover*) — whatever the pool looks like, a
connection handed out *from the pool* had an empty receive queue, no FIN, and was within the
idle / lifetime limits at that moment: a socket holding unread bytes of an earlier exchange is
never given to a later request. -/
theorem C17_reuse_only_clean (cfg : Cfg) (now a : Nat) (p : Pool) (c : Conn) (p' : Pool)
    (h : acquire cfg now a p = (p', c, true)) :
    c.sock = [] ∧ c.peerClosed = false ∧ ineligible cfg now c = false := by
  unfold acquire at h
  generalize hp : popUsable cfg now (lookup a p.avail) = r at h
  obtain ⟨r1, rest, closed⟩ := r
  cases r1 with
  | none => simp at h
  | some d =>
    simp only [Prod.mk.injEq] at h
    obtain ⟨_, hd, _⟩ := h
    subst hd
    have := popUsable_some cfg now _ _ _ _ hp
    refine ⟨?_, ?_, this.2.1⟩
    · have h1 := this.1
      unfold check at h1
      by_cases hs : d.sock.isEmpty
      · simpa using hs
      · simp [hs] at h1
    · have h1 := this.1
      unfold check at h1
      by_cases hs : d.sock.isEmpty
      · simp only [hs, Bool.not_true, Bool.false_eq_true, if_false] at h1
        by_cases hc : d.peerClosed
        · simp [hc] at h1
        · simpa using hc
      · simp [hs] at h1

example : ∃ p c p', acquire ⟨1, 15000, 75000⟩ 5 0 p = (p', c, true) :=
  ⟨⟨[(0, [⟨7, 0, 1, 2, [], false⟩])], [], 8⟩, _, _, rfl⟩


/-! ## Part 2 — the body: all byte streams, all segmentations, all close points

`runBody k buf0 segs closed` is the model of `PlStream` over `Framed<_, ClientPayloadCodec>`:
`buf0` is what the head read left in the buffer, `segs` are the following socket reads (any
number, any sizes), `closed` says whether the peer closes after them. `runBytes` is the
byte-at-a-time reading of the same decoder (`Proofs/ClientDecode.lean`, proved equal to the
code-shaped bulk decoder), used here as the definition of "the framed end is reached". -/

/-- **C17_segmentation_independent** — what is delivered and how the stream ends depends only on
the concatenated bytes (and on whether the peer closed), not on how the reads cut them — for
every decoder state, every pair of segmentations, including 1-byte reads and a cut anywhere
inside a chunk-size line, a CRLF or the data. -/
theorem C17_segmentation_independent (k : Kind) (hwf : WF k) (b0 b0' : Bytes) (segs segs' : List Bytes)
    (closed : Bool) (h : b0 ++ flat segs = b0' ++ flat segs') :
    (runBody k b0 segs closed).delivered = (runBody k b0' segs' closed).delivered ∧
    (runBody k b0 segs closed).fin = (runBody k b0' segs' closed).fin := by
  have h1 := runBody_closed_form k hwf b0 segs closed
  have h2 := runBody_closed_form k hwf b0' segs' closed
  simp only [] at h1 h2
  rw [h] at h1
  exact ⟨h1.1.trans h2.1.symm, h1.2.trans h2.2.symm⟩

example : (runBody (.chunked .size 0) [51, 13] [[10, 97], [98, 99, 13, 10, 48, 13], [10, 13, 10]] false).delivered
    = [97, 98, 99] := by decide

/-- **C17_complete_or_error** — for a body framed by Content-Length or by chunked coding
(`fam k ≠ 2`), for every byte stream, every segmentation and every close point:
* the stream ends cleanly (`complete`: the only end after which `body()` returns `Ok`) exactly
  when the decoder's framed end lies inside the bytes received, and the bytes delivered are
  exactly the bytes decoded up to there;
* if the peer closes before that, the end is an error (`incomplete` = `PayloadError::Incomplete`,
  or `ioError` for a syntax error seen earlier) — never a clean end, never a silent wait;
* the "ends with the connection" outcome does not exist for these framings. -/
theorem C17_complete_or_error (k : Kind) (hwf : WF k) (hk : fam k ≠ 2) (b0 : Bytes) (segs : List Bytes)
    (closed : Bool) :
    ((runBody k b0 segs closed).fin = .complete ↔ (runBytes k (b0 ++ flat segs) []).st = .done) ∧
    (runBody k b0 segs closed).delivered = (runBytes k (b0 ++ flat segs) []).out ∧
    (closed = true → (runBytes k (b0 ++ flat segs) []).st ≠ .done →
      (runBody k b0 segs closed).fin = .incomplete ∨ (runBody k b0 segs closed).fin = .ioError) ∧
    (runBody k b0 segs closed).fin ≠ .closeDelimited := by
  have h := runBody_closed_form k hwf b0 segs closed
  simp only [] at h
  obtain ⟨hout, hfin⟩ := h
  have hkind : (runBytes k (b0 ++ flat segs) []).st = .more → (runBytes k (b0 ++ flat segs) []).kind ≠ .eof := by
    intro hm he
    have := runBytes_fam k (b0 ++ flat segs) [] (by rw [hm]; decide)
    rw [he] at this
    exact hk this.symm
  cases hst : (runBytes k (b0 ++ flat segs) []).st with
  | done => rw [hst] at hfin; simp [hfin, hout]
  | failed => rw [hst] at hfin; simp [hfin, hout]
  | more =>
    rw [hst] at hfin
    have hne := hkind hst
    cases closed <;> simp [hfin, hout, hne]

example : WF (.length 10) ∧ fam (.length 10) ≠ 2 := by simp [WF, fam]

/-- **C17_length_exact** — Content-Length `n`: with at least `n` bytes the body is their first
`n` and the end is clean (everything after is left over); with fewer, every byte received is
passed on and then the close is reported as `Incomplete` (or the client keeps waiting while the
connection stays open) — for every segmentation. -/
theorem C17_length_exact (n : Nat) (b0 : Bytes) (segs : List Bytes) (closed : Bool) :
    (n ≤ (b0 ++ flat segs).length →
      (runBody (.length n) b0 segs closed).delivered = (b0 ++ flat segs).take n ∧
      (runBody (.length n) b0 segs closed).fin = .complete) ∧
    ((b0 ++ flat segs).length < n →
      (runBody (.length n) b0 segs closed).delivered = b0 ++ flat segs ∧
      (runBody (.length n) b0 segs closed).fin = if closed then .incomplete else .pending) := by
  have h := runBody_closed_form (.length n) (by simp [WF]) b0 segs closed
  simp only [runBytes_length] at h
  constructor
  · intro hle
    simp only [hle, if_true] at h
    exact h
  · intro hlt
    have : ¬ n ≤ (b0 ++ flat segs).length := by omega
    simp only [this, if_false] at h
    refine ⟨h.1, ?_⟩
    rw [h.2]
    simp

/-- **C17_chunked_exact** — chunked coding: if the bytes received start with the wire form of
the chunks `cs` (hex size, CRLF, data, CRLF … `0` CRLF CRLF), then — whatever the segmentation and
whatever follows — exactly `cs` joined is delivered and the end is clean. -/
theorem C17_chunked_exact (cs : List Bytes) (rest b0 : Bytes) (segs : List Bytes) (closed : Bool)
    (hcs : ∀ c ∈ cs, c ≠ [] ∧ c.length < u64Bound)
    (h : b0 ++ flat segs = encodeChunked cs ++ rest) :
    (runBody (.chunked .size 0) b0 segs closed).delivered = flat cs ∧
    (runBody (.chunked .size 0) b0 segs closed).fin = .complete := by
  have hc := runBody_closed_form (.chunked .size 0) (by simp [WF]) b0 segs closed
  simp only [h, runBytes_encodeChunked cs rest [] hcs, List.nil_append] at hc
  exact hc

example : encodeChunked [[97, 98, 99]] = [51, 13, 10, 97, 98, 99, 13, 10, 48, 13, 10, 13, 10] := by decide

/-- **C17_truncated_is_error** — let `whole` be a byte string that is exactly one framed body
(the decoder reaches its end on the last byte). If the peer closes after any *strict prefix* of
it — at every byte offset, under every segmentation — the client reports
`PayloadError::Incomplete`; it never returns the bytes so far as a success. -/
theorem C17_truncated_is_error (k : Kind) (hwf : WF k) (hk : fam k ≠ 2) (whole : Bytes)
    (hdone : (runBytes k whole []).st = .done) (hexact : (runBytes k whole []).buf = [])
    (b0 : Bytes) (segs : List Bytes) (suffix : Bytes) (hsuf : suffix ≠ [])
    (hpre : (b0 ++ flat segs) ++ suffix = whole) :
    (runBody k b0 segs true).fin = .incomplete := by
  have happ := runBytes_append k (b0 ++ flat segs) suffix []
  rw [hpre] at happ
  have hcf := runBody_closed_form k hwf b0 segs true
  simp only [] at hcf
  cases hst : (runBytes k (b0 ++ flat segs) []).st with
  | done =>
    rw [hst] at happ
    simp only [] at happ
    rw [happ] at hexact
    simp only [List.append_eq_nil_iff] at hexact
    exact absurd hexact.2 hsuf
  | failed =>
    rw [hst] at happ
    simp only [] at happ
    rw [happ, hst] at hdone
    exact absurd hdone (by decide)
  | more =>
    have hne : (runBytes k (b0 ++ flat segs) []).kind ≠ .eof := by
      intro he
      have := runBytes_fam k (b0 ++ flat segs) [] (by rw [hst]; decide)
      rw [he] at this
      exact hk this.symm
    rw [hcf.2, hst]
    simp [hne]

/-- every strict prefix of a chunked message, cut anywhere (inside a size line, between CR and
LF, inside the data, before the final CRLF), closed there ⇒ `Incomplete` -/
theorem C17_truncated_chunked_is_error (cs : List Bytes) (hcs : ∀ c ∈ cs, c ≠ [] ∧ c.length < u64Bound)
    (b0 : Bytes) (segs : List Bytes) (suffix : Bytes) (hsuf : suffix ≠ [])
    (hpre : (b0 ++ flat segs) ++ suffix = encodeChunked cs) :
    (runBody (.chunked .size 0) b0 segs true).fin = .incomplete := by
  have hr := runBytes_encodeChunked cs [] [] hcs
  simp only [List.append_nil] at hr
  exact C17_truncated_is_error (.chunked .size 0) (by simp [WF]) (by simp [fam]) (encodeChunked cs)
    (by rw [hr]) (by rw [hr]) b0 segs suffix hsuf hpre

example : (runBody (.chunked .size 0) [] [[51, 13, 10, 97, 98]] true).fin = .incomplete := by decide
example : (runBody (.length 10) [97, 98, 99] [] true).fin = .incomplete := by decide

/-- **C17_until_close** — the counterpart that keeps the F8 repair honest: a body that is framed
by the end of the connection (HTTP/1.0 without Content-Length) delivers every byte received and
ends cleanly when the peer closes; its connection is never pooled (see `C17_release_iff`). -/
theorem C17_until_close (b0 : Bytes) (segs : List Bytes) :
    (runBody .eof b0 segs true).delivered = b0 ++ flat segs ∧
    (runBody .eof b0 segs true).fin = .closeDelimited := by
  have h := runBody_closed_form .eof (by simp [WF]) b0 segs true
  simp only [runBytes_eof_all, List.nil_append] at h
  simpa using h

end ActixModel.C17
