import ActixModel.Proofs.HeaderMap
/-
C18 — HeaderMap behaves as an order-preserving multimap under every operation sequence.

Model: `ActixModel/Model/HeaderMap.lean` (association list in *arbitrary* entry order = the
hash map's unspecified iteration order).  Spec: a function `name → List value`.
All theorems quantify over every map / every operation sequence; nothing is bounded.
-/
namespace ActixModel.HeaderMap.C18
open ActixModel.HeaderMap

variable {α β : Type} [DecidableEq α]

/-- the mutating operations of the public API -/
inductive Op (α β : Type) where
  | insert (k : α) (v : β)
  | append (k : α) (v : β)
  | remove (k : α)
  | retain (f : α → β → Bool)
  | clear
  | drain
  /-- `*map.get_mut(k)? = v` -/
  | setFirst (k : α) (v : β)

def applyOp (m : Entries α β) : Op α β → Entries α β
  | .insert k v => (insert m k v).1
  | .append k v => append m k v
  | .remove k => (remove m k).1
  | .retain f => retain f m
  | .clear => clear m
  | .drain => (drain m).1
  | .setFirst k v => (setFirst m k v).1

/-- the reference multimap: what each operation means on `name → List value` -/
def specOp (s : α → List β) : Op α β → (α → List β)
  | .insert k v => fun k' => if k' = k then [v] else s k'
  | .append k v => fun k' => if k' = k then s k ++ [v] else s k'
  | .remove k => fun k' => if k' = k then [] else s k'
  | .retain f => fun k' => (s k').filter (f k')
  | .clear => fun _ => []
  | .drain => fun _ => []
  | .setFirst k v => fun k' => if k' = k then (match s k with | [] => [] | _ :: vs => v :: vs) else s k'

theorem inv_step (m : Entries α β) (op : Op α β) (h : Inv m) : Inv (applyOp m op) := by
  cases op with
  | insert k v => exact inv_put h (by simp)
  | append k v =>
    simp only [applyOp, append]
    cases hl : lookup k m with
    | some vs => exact inv_put h (by simp)
    | none => exact inv_put h (by simp)
  | remove k => exact inv_erase h
  | retain f => exact inv_retain f h
  | clear => exact ⟨by simp [applyOp, clear], by simp [applyOp, clear]⟩
  | drain => exact ⟨by simp [applyOp, drain], by simp [applyOp, drain]⟩
  | setFirst k v =>
    simp only [applyOp, setFirst]
    cases hl : lookup k m with
    | none => exact h
    | some vs =>
      cases vs with
      | nil => exact h
      | cons old vs' => exact inv_put h (by simp)

/-- **C18_inv**: after any operation sequence from the empty map, names are unique and no name
is left with an empty value list (so `len_keys`, `contains_key`, `is_empty` are truthful and
`get` never indexes into an empty list). -/
theorem C18_inv (ops : List (Op α β)) : Inv (ops.foldl applyOp ([] : Entries α β)) := by
  have : ∀ (m : Entries α β), Inv m → Inv (ops.foldl applyOp m) := by
    induction ops with
    | nil => intro m h; exact h
    | cons op tl ih => intro m h; exact ih _ (inv_step m op h)
  exact this [] ⟨by simp, by simp⟩

theorem refines_step (m : Entries α β) (op : Op α β) (h : Inv m) :
    abs (applyOp m op) = specOp (abs m) op := by
  funext k'
  cases op with
  | insert k v => simp only [applyOp, insert, abs, lookup_put, specOp]; split <;> simp
  | append k v => simp only [applyOp, specOp, abs_append]
  | remove k => simp only [applyOp, remove, abs, lookup_erase _ _ _ h.1, specOp]; split <;> simp
  | retain f => simp only [applyOp, specOp, abs]; exact lookup_retain f k' m h.1
  | clear => simp [applyOp, clear, specOp, abs, lookup]
  | drain => simp [applyOp, drain, specOp, abs, lookup]
  | setFirst k v =>
    simp only [applyOp, setFirst, specOp, abs]
    cases hl : lookup k m with
    | none =>
      by_cases e : k' = k
      · subst e; simp [hl]
      · simp [e]
    | some vs =>
      cases vs with
      | nil =>
        by_cases e : k' = k
        · subst e; simp [hl]
        · simp [e]
      | cons old vs' =>
        simp only [lookup_put]
        by_cases e : k' = k
        · subst e; simp
        · simp [e]

/-- **C18_refines**: for every operation sequence, the map's contents are exactly those of the
reference multimap driven by the same sequence (values of one name in insertion order). -/
theorem C18_refines (ops : List (Op α β)) :
    abs (ops.foldl applyOp ([] : Entries α β)) = ops.foldl specOp (fun _ => []) := by
  have : ∀ (m : Entries α β), Inv m → abs (ops.foldl applyOp m) = ops.foldl specOp (abs m) := by
    induction ops with
    | nil => intro m _; rfl
    | cons op tl ih => intro m h; simp only [List.foldl_cons]; rw [ih _ (inv_step m op h), refines_step m op h]
  have h0 := this [] ⟨by simp, by simp⟩
  have e : abs ([] : Entries α β) = fun _ => [] := by funext k; simp [abs, lookup]
  rw [e] at h0; exact h0

/-- **C18_removed**: `insert`/`remove` hand back exactly the values the name had, and the
`Removed` iterator's `size_hint` is exact (lower = upper = number of values), also for an absent
name (the pre-fix code returned `(0, None)` there, which made `ExactSizeIterator::len` panic). -/
theorem C18_removed (m : Entries α β) (k : α) (v : β) :
    removedItems (remove m k).2 = abs m k ∧ removedItems (insert m k v).2 = abs m k ∧
    removedSizeHint (remove m k).2 = ((abs m k).length, some (abs m k).length) ∧
    removedIsEmpty (remove m k).2 = (abs m k).isEmpty := by
  simp only [remove, insert, abs, removedItems, removedSizeHint, removedIsEmpty]
  cases lookup k m with
  | none => simp
  | some vs => cases vs <;> simp

/-- **C18_get**: under the invariant, `get` returns the first value of the name and never hits the
`inner[0]` panic; `get_all`/`contains_key`/`len`/`len_keys`/`is_empty` agree with the contents. -/
theorem C18_get (m : Entries α β) (k : α) (h : Inv m) :
    getFirst m k = (if abs m k = [] then none else some (abs m k).head?) ∧
    getFirst m k ≠ some none ∧
    getAll m k = abs m k ∧ containsKey m k = !(abs m k).isEmpty := by
  cases hl : lookup k m with
  | none => simp [getFirst, getAll, containsKey, abs, hl]
  | some vs =>
    have := h.2 _ (lookup_mem hl)
    cases vs with
    | nil => exact absurd rfl this
    | cons v vs' => simp [getFirst, getAll, containsKey, abs, hl]

theorem C18_len (m : Entries α β) : len m = (pairs m).length ∧ lenKeys m = m.length ∧
    (isEmpty m = true ↔ m = []) := by
  refine ⟨len_eq_pairs m, rfl, ?_⟩
  simp [isEmpty]

/-- **C18_get_mut**: storing through `get_mut` replaces exactly the first value of that name, leaves
every other value and name alone, hands back the old first value, does nothing for an absent name
and — under the invariant — never reaches the `inner[0]` panic. -/
theorem C18_get_mut (m : Entries α β) (k : α) (v : β) (h : Inv m) :
    (setFirst m k v).2 ≠ some none ∧
    (setFirst m k v).2 = (if abs m k = [] then none else some (abs m k).head?) ∧
    abs (setFirst m k v).1 = specOp (abs m) (.setFirst k v) ∧
    len (setFirst m k v).1 = len m ∧ Inv (setFirst m k v).1 := by
  have hi := inv_step m (.setFirst k v) h
  have hr := refines_step m (.setFirst k v) h
  simp only [applyOp] at hi hr
  refine ⟨?_, ?_, hr, ?_, hi⟩
  · simp only [setFirst]
    cases hl : lookup k m with
    | none => simp
    | some vs =>
      cases vs with
      | nil => exact absurd rfl (h.2 _ (lookup_mem hl))
      | cons old vs' => simp
  · cases hl : lookup k m with
    | none => simp [setFirst, abs, hl]
    | some vs =>
      cases vs with
      | nil => exact absurd rfl (h.2 _ (lookup_mem hl))
      | cons old vs' => simp [setFirst, abs, hl]
  · simp only [setFirst]
    cases hl : lookup k m with
    | none => rfl
    | some vs =>
      cases vs with
      | nil => rfl
      | cons old vs' => exact len_put_same_length hl (by simp)

/-- **C18_keys**: `keys()` yields every name that has at least one value exactly once and nothing
else; its length is `len_keys()`. -/
theorem C18_keys (m : Entries α β) (h : Inv m) :
    (keys m).Nodup ∧ (∀ k, k ∈ keys m ↔ abs m k ≠ []) ∧ (keys m).length = lenKeys m := by
  refine ⟨h.1, fun k => ?_, by simp [keys, lenKeys]⟩
  simp only [keys, abs]
  cases hl : lookup k m with
  | none => simpa using lookup_none_iff.mp hl
  | some vs =>
    have hm := lookup_mem hl
    constructor
    · intro _; simpa using h.2 _ hm
    · intro _; exact List.mem_map.mpr ⟨_, hm, rfl⟩

/-- **C18_len_spec**: `len()` is the total number of values of the reference multimap — the sum,
over the names `keys()` reports, of the number of values each has. -/
theorem C18_len_spec (m : Entries α β) (h : Inv m) :
    len m = ((keys m).map (fun k => (abs m k).length)).sum :=
  len_eq_sum_abs m h.1

/-- **C18_iter_exact**: for *any* entry order, `iter()` (same code shape: `into_iter()`) yields
every (name, value) pair exactly once, values of a name in stored order; before each `next()` the
size hint is exactly the number of pairs still to come, it reaches 0 and stays 0, and the
`remaining -= 1` never underflows. -/
theorem C18_iter_exact (m : Entries α β) :
    iterRun (len m + 1) (iter m) = (pairs m, countdown (len m), false) := by
  have hg := iter_good m
  have hr : (iter m).rest = pairs m := by simp [iter, iterNew, Iter.rest]
  have := iterRun_spec (len m + 1) (iter m) hg (by rw [hr, len_eq_pairs]; omega)
  rw [this, hr, len_eq_pairs]

/-- every pair the iterator yields carries the value list of its name: grouping the iteration by
name gives back the multimap -/
theorem C18_iter_contents (m : Entries α β) (k : α) (h : Inv m) :
    ((pairs m).filter (fun p => p.1 = k)).map Prod.snd = abs m k :=
  filter_pairs m k h.1

/-- **C18_drain_exact**: `drain()` empties the map and yields every value once; the name comes
with the first value of each name only (`http`'s drain convention); exact size hints throughout. -/
theorem C18_drain_exact (m : Entries α β) :
    (drain m).1 = [] ∧
    drainRun (len m + 1) (drain m).2 = (drainItems m, countdown (len m), false) ∧
    ∀ prev, resolve prev (drainItems m) = pairs m := by
  refine ⟨rfl, ?_, fun prev => resolve_drainItems prev m⟩
  have hg := drain_good m
  have hr : (drain m).2.rest = drainItems m := by simp [drain, Drain.rest]
  have := drainRun_spec (len m + 1) (drain m).2 hg (by rw [hr, drainItems_length]; omega)
  rw [this, hr, drainItems_length]

/-- **C18_http_roundtrip**: feeding a drain-shaped stream of the map's pairs through `from_drain`
(the `From<http::HeaderMap>` path) or the pair stream through `FromIterator` (the
`Into<http::HeaderMap>` path, `http`'s own `append` semantics) preserves every name's value list.
(`http::HeaderMap` itself is trusted to be a multimap; the correspondence samples it.) -/
theorem C18_http_roundtrip (m : Entries α β) (h : Inv m) :
    (∃ m', fromDrain (drainItems m) = some m' ∧ abs m' = abs m) ∧
    abs (fromPairs (pairs m)) = abs m := by
  constructor
  · obtain ⟨m', h1, h2⟩ := fromDrain_drainItems m
    exact ⟨m', h1, by funext k; rw [h2, filter_pairs m k h.1]⟩
  · funext k; rw [abs_fromPairs, filter_pairs m k h.1]

/-- non-vacuity: a concrete reachable non-trivial state satisfies the hypotheses and exercises
multi-value names -/
example : ∃ m : Entries Nat Nat,
    m = [Op.append 1 10, Op.append 2 20, Op.append 1 11, Op.insert 3 30, Op.remove 2,
         Op.setFirst 1 12, Op.setFirst 2 99].foldl applyOp [] ∧
    Inv m ∧ abs m 1 = [12, 11] ∧ abs m 2 = [] ∧ len m = 3 :=
  ⟨[(1, [12, 11]), (3, [30])], by decide, ⟨by decide, by decide⟩, by decide, by decide, by decide⟩

end ActixModel.HeaderMap.C18
