import ActixModel.Proofs.PanicChunk
import ActixModel.Proofs.PanicWs
/-
C19 — no peer-controlled input makes the library panic.

Lean part: *panic-explicit* models (`Model/Panic*.lean`) of the peer-reachable arithmetic and
slicing cores.  Every Rust operation that panics under `overflow-checks`/`debug-assertions`
returns `Outcome.panic site` in the model; the theorems below say that for **every** input
(no length bound, no sampling) the outcome is a value or a graceful error, never a panic.
Where fuel is used, running out of fuel is itself a `panic` outcome, so the same theorems
show that the stated fuel suffices (termination).

The bulk of the evidence for C19 is the differential fuzz run in `harness/src/props/c19.rs`
(see `props/C19.json`); these theorems cover only the modelled cores.
-/
namespace ActixModel.Panic.C19
open ActixModel.Panic ActixModel.Panic.Outcome

/-! ## 1. HTTP/1 body decoders (`h1/chunked.rs`, `h1/decoder.rs`) -/

/-- **C19_no_panic_chunk_size**: the chunk-size accumulator. `size.checked_mul(16)` is checked
in the code, the following `*size += rem` is not — it cannot overflow because a multiple of 16
that fits in `u64` leaves room for a hex digit.  For every register value and every byte. -/
theorem C19_no_panic_chunk_size (rdr : List Nat) (size : Nat) :
    NoPanic (Chunk.readSize rdr size) := Chunk.readSize_noPanic rdr size

example : Chunk.readSize [102] 1152921504606846975 = .ok (.ready .size [] 18446744073709551615 none) := by
  rfl

/-- **C19_no_panic_chunked_step**: one `ChunkedState::step` from any of the ten states. -/
theorem C19_no_panic_chunked_step (st : Chunk.CState) (rdr : List Nat) (size : Nat) :
    NoPanic (Chunk.step st rdr size) := Chunk.step_noPanic st rdr size

/-- **C19_chunk_size_is_u64**: the size register never leaves `u64`. -/
theorem C19_chunk_size_is_u64 (st st' : Chunk.CState) (rdr rdr' : List Nat) (size size' : Nat)
    (buf : Option (List Nat)) (hs : size ≤ u64Max)
    (h : Chunk.step st rdr size = .ok (.ready st' rdr' size' buf)) : size' ≤ u64Max :=
  Chunk.step_size_bound hs h

/-- **C19_no_panic_payload_decode**: `PayloadDecoder::decode` for *any* register
(`Length(n)`, `Chunked(state, size)`, `Eof`) and *any* buffer — hence for every byte stream
under every segmentation, since a segmentation is a sequence of such calls.  Includes
termination of the chunked `loop` (fuel `src.len() + 1` is never exhausted). -/
theorem C19_no_panic_payload_decode (k : Chunk.Kind) (src : List Nat) :
    NoPanic (Chunk.decode k src) := Chunk.decode_noPanic k src

/-- **C19_no_panic_content_length** + **C19_content_length_is_u64** -/
theorem C19_no_panic_content_length (v : List Nat) : NoPanic (Chunk.contentLength v) :=
  Chunk.contentLength_noPanic v

theorem C19_content_length_is_u64 (v : List Nat) (n : Nat) (h : Chunk.contentLength v = .ok n) :
    n ≤ u64Max := Chunk.contentLength_bound v n h

/-! ## 2. WebSocket frame parser (`ws/frame.rs`) -/

/-- **C19_no_panic_ws_metadata**: `parse_metadata` for every buffer and role; and the header
length it returns is within the buffer (so the later `advance(idx)` is safe). -/
theorem C19_no_panic_ws_metadata (src : List Nat) (server : Bool) :
    NoPanic (Ws.parseMetadata src server) ∧
    ∀ m, Ws.parseMetadata src server = .ok (some m) → 2 ≤ m.idx ∧ m.idx ≤ 14 ∧ m.idx ≤ src.length :=
  Ws.parseMetadata_spec src server

/-- **C19_no_panic_ws_parse**: `Parser::parse` for every buffer, capacity, role and every
`max_size ≤ isize::MAX − 14`. -/
theorem C19_no_panic_ws_parse (src : List Nat) (cap : Nat) (server : Bool) (maxSize : Nat)
    (hmax : maxSize + 14 ≤ isizeMax) : NoPanic (Ws.parse src cap server maxSize) :=
  Ws.parse_noPanic src cap server maxSize hmax

example : (65536 : Nat) + 14 ≤ isizeMax := by decide

/- Full statement (no bound on `max_size`) is false of the code as written: with
`max_size = usize::MAX` a peer-announced length ≥ 2^63 reaches `src.reserve(..)` with a request
beyond `isize::MAX` ("capacity overflow" panic in `Vec`).  `max_size` is operator configuration
(default 64 KiB), not peer input, so this is recorded as an assumption, not a finding.
   theorem C19_no_panic_ws_parse_full : ∀ src cap server maxSize, NoPanic (Ws.parse src cap server maxSize)  -/
theorem witness_ws_reserve_unbounded_max_size :
    (Ws.parse [129, 127, 128, 0, 0, 0, 0, 0, 0, 0] 10 false usizeMax).isPanic = true := by
  decide

/-- **C19_ws_parse_progress**: a delivered frame consumes ≥ 2 bytes (no unbounded loop in
`Codec::decode` over one buffer). -/
theorem C19_ws_parse_progress (src : List Nat) (cap : Nat) (server : Bool) (maxSize : Nat)
    (fin : Bool) (op : Ws.OpCode) (pl : Option (List Nat)) (rest : List Nat)
    (h : Ws.parse src cap server maxSize = .ok (.frame fin op pl, rest)) :
    rest.length + 2 ≤ src.length := Ws.parse_progress src cap server maxSize fin op pl rest h

/-- **C19_no_panic_ws_close_payload** -/
theorem C19_no_panic_ws_close_payload (p : List Nat) : NoPanic (Ws.parseClosePayload p) :=
  Ws.parseClosePayload_noPanic p

end ActixModel.Panic.C19
