import ActixModel.Proofs.PanicChunk
import ActixModel.Proofs.PanicWs
import ActixModel.Proofs.PanicPath
import ActixModel.Proofs.PanicRange
import ActixModel.Proofs.PanicCD
/-
C19 — no peer-controlled input makes the library panic.

Lean part: *panic-explicit* models (`Model/Panic*.lean`) of the peer-reachable arithmetic and
slicing cores.  Every Rust operation that panics under `overflow-checks`/`debug-assertions`
returns `Outcome.panic site` in the model; the theorems below say that for **every** input
(no length bound, no sampling) the outcome is a value or a graceful error, never a panic.
Where fuel is used, running out of fuel is itself a `panic` outcome, so the same theorems
show that the stated fuel suffices (termination).

The bulk of the evidence for C19 is the differential fuzz run in `harness/src/props/c19.rs`
(see `props/C19.json`); these theorems cover only the modelled cores.
-/
namespace ActixModel.Panic.C19
open ActixModel.Panic ActixModel.Panic.Outcome

/-! ## 1. HTTP/1 body decoders (`h1/chunked.rs`, `h1/decoder.rs`) -/

/-- **C19_no_panic_chunk_size**: the chunk-size accumulator. `size.checked_mul(16)` is checked
in the code, the following `*size += rem` is not — it cannot overflow because a multiple of 16
that fits in `u64` leaves room for a hex digit.  For every register value and every byte. -/
theorem C19_no_panic_chunk_size (rdr : List Nat) (size : Nat) (first : Bool) :
    NoPanic (Chunk.readSize rdr size first) := Chunk.readSize_noPanic rdr size first

example : Chunk.readSize [102] 1152921504606846975 false = .ok (.ready .sizeDigit [] 18446744073709551615 none) := by
  rfl

/-- **C19_no_panic_chunked_step**: one `ChunkedState::step` from any of the eleven states. -/
theorem C19_no_panic_chunked_step (st : Chunk.CState) (rdr : List Nat) (size : Nat) :
    NoPanic (Chunk.step st rdr size) := Chunk.step_noPanic st rdr size

/-- **C19_chunk_size_is_u64**: the size register never leaves `u64`. -/
theorem C19_chunk_size_is_u64 (st st' : Chunk.CState) (rdr rdr' : List Nat) (size size' : Nat)
    (buf : Option (List Nat)) (hs : size ≤ u64Max)
    (h : Chunk.step st rdr size = .ok (.ready st' rdr' size' buf)) : size' ≤ u64Max :=
  Chunk.step_size_bound hs h

/-- **C19_no_panic_payload_decode**: `PayloadDecoder::decode` for *any* register
(`Length(n)`, `Chunked(state, size)`, `Eof`) and *any* buffer — hence for every byte stream
under every segmentation, since a segmentation is a sequence of such calls.  Includes
termination of the chunked `loop` (fuel `src.len() + 1` is never exhausted). -/
theorem C19_no_panic_payload_decode (k : Chunk.Kind) (src : List Nat) :
    NoPanic (Chunk.decode k src) := Chunk.decode_noPanic k src

/-- **C19_no_panic_body_all_segmentations**: for *every* list of segments (every way of cutting
every byte stream, including empty segments) fed to any reachable decoder register
(`Length(n)`, `Eof`, `Chunked(state, size)` with `state = Body → size > 0`), draining after each
segment as `h1::Codec` does: no panic, and the model's fuel (`buffer + 2` decode calls per
segment) is never exhausted, because every delivered chunk consumed at least one byte. -/
theorem C19_no_panic_body_all_segmentations (segs : List (List Nat)) (k : Chunk.Kind)
    (buf : List Nat) (acc : Nat) (hk : Chunk.KInv k) : NoPanic (Chunk.feed k buf acc segs) :=
  Chunk.feed_noPanic segs k buf acc hk

example : Chunk.KInv (.chunked .size 0) ∧ Chunk.KInv (.length 18446744073709551615) := by
  constructor <;> simp [Chunk.KInv, Chunk.SInv]

/-- **C19_body_decode_progress**: one `decode` call keeps the register reachable, never grows
the buffer and consumes ≥ 1 byte whenever it delivers a chunk. -/
theorem C19_body_decode_progress (k : Chunk.Kind) (src : List Nat) (k' : Chunk.Kind)
    (src' : List Nat) (item : Chunk.Item) (hk : Chunk.KInv k)
    (h : Chunk.decode k src = .ok (k', src', item)) :
    Chunk.KInv k' ∧ src'.length ≤ src.length ∧ (Chunk.isChunk item = true → src'.length < src.length) :=
  Chunk.decode_facts k src k' src' item hk h

/-- **C19_no_panic_content_length** + **C19_content_length_is_u64** -/
theorem C19_no_panic_content_length (v : List Nat) : NoPanic (Chunk.contentLength v) :=
  Chunk.contentLength_noPanic v

theorem C19_content_length_is_u64 (v : List Nat) (n : Nat) (h : Chunk.contentLength v = .ok n) :
    n ≤ u64Max := Chunk.contentLength_bound v n h

/-! ## 2. WebSocket frame parser (`ws/frame.rs`) -/

/-- **C19_no_panic_ws_metadata**: `parse_metadata` for every buffer and role; and the header
length it returns is within the buffer (so the later `advance(idx)` is safe). -/
theorem C19_no_panic_ws_metadata (src : List Nat) (server : Bool) :
    NoPanic (Ws.parseMetadata src server) ∧
    ∀ m, Ws.parseMetadata src server = .ok (some m) → 2 ≤ m.idx ∧ m.idx ≤ 14 ∧ m.idx ≤ src.length :=
  Ws.parseMetadata_spec src server

/-- **C19_no_panic_ws_parse**: `Parser::parse` for every buffer, capacity, role and every
`max_size ≤ isize::MAX − 14`. -/
theorem C19_no_panic_ws_parse (src : List Nat) (cap : Nat) (server : Bool) (maxSize : Nat)
    (hmax : maxSize + 14 ≤ isizeMax) : NoPanic (Ws.parse src cap server maxSize) :=
  Ws.parse_noPanic src cap server maxSize hmax

example : (65536 : Nat) + 14 ≤ isizeMax := by decide

/- Full statement (no bound on `max_size`) is false of the code as written: with
`max_size = usize::MAX` a peer-announced length ≥ 2^63 reaches `src.reserve(..)` with a request
beyond `isize::MAX` ("capacity overflow" panic in `Vec`).  `max_size` is operator configuration
(default 64 KiB), not peer input, so this is recorded as an assumption, not a finding.
   theorem C19_no_panic_ws_parse_full : ∀ src cap server maxSize, NoPanic (Ws.parse src cap server maxSize)  -/
theorem witness_ws_reserve_unbounded_max_size :
    (Ws.parse [129, 127, 128, 0, 0, 0, 0, 0, 0, 0] 10 false usizeMax).isPanic = true := by
  decide

/-- **C19_ws_parse_progress**: a delivered frame consumes ≥ 2 bytes (no unbounded loop in
`Codec::decode` over one buffer). -/
theorem C19_ws_parse_progress (src : List Nat) (cap : Nat) (server : Bool) (maxSize : Nat)
    (fin : Bool) (op : Ws.OpCode) (pl : Option (List Nat)) (rest : List Nat)
    (h : Ws.parse src cap server maxSize = .ok (.frame fin op pl, rest)) :
    rest.length + 2 ≤ src.length := Ws.parse_progress src cap server maxSize fin op pl rest h

/-- **C19_no_panic_ws_close_payload** -/
theorem C19_no_panic_ws_close_payload (p : List Nat) : NoPanic (Ws.parseClosePayload p) :=
  Ws.parseClosePayload_noPanic p

/-! ## 3. actix-router `u16` path offsets (`path.rs`, `resource.rs::capture_match_info_fn`) -/

/-- **C19_no_panic_router_capture**: one dynamic capture on any path state — any length, in
particular longer than 65535 bytes — with any regex result that satisfies the regex
post-condition.  (`Inv` is only needed, and only available, for paths that fit `u16`.) -/
theorem C19_no_panic_router_capture (p : Path.P) (m : Path.Match)
    (hi : p.len ≤ u16Max → Path.Inv p) (hm : m.Valid p) : NoPanic (Path.capture p m) :=
  Path.capture_noPanic p m hi hm

/-- **C19_router_inv**: the invariant (`skip ≤ len ≤ u16::MAX`, every stored segment
`start ≤ end ≤ len`) holds initially and is preserved by every successful capture — hence,
by induction, after every sequence of (nested scope / resource) captures. -/
theorem C19_router_inv_init (len : Nat) (h : len ≤ u16Max) : Path.Inv (Path.P.new len) :=
  Path.inv_new len h

theorem C19_router_inv_step (p p' : Path.P) (m : Path.Match) (hi : Path.Inv p) (hm : m.Valid p)
    (h : Path.capture p m = .ok (some p')) : Path.Inv p' := Path.capture_inv p p' m hi hm h

/-- all capture sequences: fold of captures from the empty state, each match valid for the state
it is applied to (`none` = "did not match": the state is unchanged) -/
def runCaptures : Path.P → List Path.Match → Outcome Path.P
  | p, [] => .ok p
  | p, m :: ms =>
    match Path.capture p m with
    | .ok (some p') => runCaptures p' ms
    | .ok none => runCaptures p ms
    | .err e => .err e
    | .panic s => .panic s

def AllValid : Path.P → List Path.Match → Prop
  | _, [] => True
  | p, m :: ms => m.Valid p ∧ (∀ p', Path.capture p m = .ok (some p') → AllValid p' ms) ∧
      (Path.capture p m = .ok none → AllValid p ms)

/-- **C19_no_panic_router_sequence**: for every path length ≤ `u16::MAX` and every sequence of
valid matches, no capture panics and afterwards every `Path::get` / `Path::iter` slice is in
bounds. -/
theorem C19_no_panic_router_sequence (ms : List Path.Match) :
    ∀ (p : Path.P), Path.Inv p → AllValid p ms →
      ∃ q, runCaptures p ms = .ok q ∧ Path.Inv q := by
  induction ms with
  | nil => intro p hi _; exact ⟨p, rfl, hi⟩
  | cons m ms ih =>
    intro p hi hv
    obtain ⟨hm, hsome, hnone⟩ := hv
    have hnp := Path.capture_noPanic p m (fun _ => hi) hm
    unfold runCaptures
    cases hc : Path.capture p m with
    | panic s => rw [hc] at hnp; exact absurd hnp (by simp)
    | err e =>
      -- `capture` has no graceful-error path
      exfalso
      unfold Path.capture at hc
      split at hc
      · cases hc
      · obtain ⟨q, hq, _⟩ := Path.captureUnguarded_inv p m hi hm
        simp [hq, Outcome.map] at hc
    | ok r =>
      cases r with
      | none => exact ih p hi (hnone hc)
      | some p' => exact ih p' (Path.capture_inv p p' m hi hm hc) (hsome p' hc)

theorem C19_no_panic_router_get (p : Path.P) (i : Nat) (hi : Path.Inv p) :
    NoPanic (Path.getSeg p i) ∧ NoPanic (Path.iterAll p) :=
  ⟨Path.getSeg_noPanic p i hi, Path.iterAll_noPanic p hi⟩

example : Path.Inv ⟨20, 4, [(1, 4)]⟩ ∧ (⟨[(1, 6)], 6⟩ : Path.Match).Valid ⟨20, 4, [(1, 4)]⟩ := by
  refine ⟨⟨by decide, by decide, ?_⟩, by decide, ?_⟩ <;> intro x hx <;> simp at hx <;> subst hx <;> decide

/- The code before the `fix:` commit (no length guard) — kept as witnesses of the repaired defect:
   (a) `skip + begin` overflows `u16` on a 70002-byte path,
   (b) on a 65536-byte path `m.end() as u16` truncates 65536 to 0 and `Path::get` slices `[1..0]`. -/
theorem witness_router_u16_add_overflow_before_fix :
    (Path.captureUnguarded ⟨70002, 40001, []⟩ ⟨[(1, 30001)], 30001⟩).isPanic = true := by decide

theorem witness_router_u16_truncation_before_fix :
    (match Path.captureUnguarded ⟨65536, 0, []⟩ ⟨[(1, 65536)], 65536⟩ with
     | .ok p => (Path.getSeg p 0).isPanic
     | _ => false) = true := by decide

/-! ### mixed sequences: static steps (scope prefixes) and dynamic captures, paths of any length -/

/-- apply a list of routing steps; a refused capture (`ok none`) leaves the path unchanged -/
def runSteps : Path.P → List Path.StepKind → Outcome Path.P
  | p, [] => .ok p
  | p, .static_ n :: ss =>
    match Path.staticStep p n with
    | .ok p' => runSteps p' ss
    | .err e => .err e
    | .panic s => .panic s
  | p, .dynamic m :: ss =>
    match Path.capture p m with
    | .ok (some p') => runSteps p' ss
    | .ok none => runSteps p ss
    | .err e => .err e
    | .panic s => .panic s

/-- every step is consistent with the state it is applied to: a static pattern consumed bytes
that exist in the unprocessed tail, and the consumed prefix fits `u16` (automatic when the path
does; for a longer path: the route table's static prefixes total < 64 KiB); a dynamic step
carries a regex result that satisfies the regex post-condition -/
def StepsValid : Path.P → List Path.StepKind → Prop
  | _, [] => True
  | p, .static_ n :: ss =>
    n ≤ p.len - p.skip ∧ p.skip + n ≤ u16Max ∧ ∀ p', Path.staticStep p n = .ok p' → StepsValid p' ss
  | p, .dynamic m :: ss =>
    m.Valid p ∧ (∀ p', Path.capture p m = .ok (some p') → StepsValid p' ss) ∧
      (Path.capture p m = .ok none → StepsValid p ss)

/-- **C19_no_panic_router_mixed_sequence**: for a path of ANY length (also > 65535 bytes) and every
sequence of static and dynamic steps — in particular a consumed scope prefix followed by dynamic
resources — no step panics and afterwards every `Path::get` / `iter` slice is in bounds.
What makes it true is that the guard in `capture_match_info_fn` tests the FULL path length
(`Path.capture`), not the unprocessed tail: see the witness below. -/
theorem C19_no_panic_router_mixed_sequence (ss : List Path.StepKind) :
    ∀ (p : Path.P), Path.Inv2 p → StepsValid p ss →
      ∃ q, runSteps p ss = .ok q ∧ Path.Inv2 q := by
  induction ss with
  | nil => intro p hi _; exact ⟨p, rfl, hi⟩
  | cons st ss ih =>
    intro p hi hv
    cases st with
    | static_ n =>
      obtain ⟨hn, hfit, hrest⟩ := hv
      obtain ⟨p', hp', hi'⟩ := Path.staticStep_inv2 p n hi hn hfit
      simp only [runSteps, hp']
      exact ih p' hi' (hrest p' hp')
    | dynamic m =>
      obtain ⟨hm, hsome, hnone⟩ := hv
      rcases Path.capture_inv2 p m hi hm with hc | ⟨p', hc, hi'⟩
      · simp only [runSteps, hc]; exact ih p hi (hnone hc)
      · simp only [runSteps, hc]; exact ih p' hi' (hsome p' hc)

theorem C19_no_panic_router_get_any_length (p : Path.P) (i : Nat) (hi : Path.Inv2 p) :
    NoPanic (Path.getSeg p i) ∧ NoPanic (Path.iterAll p) :=
  ⟨Path.getSeg_noPanic2 p i hi, Path.iterAll_noPanic2 p hi⟩

theorem C19_router_inv2_init (len : Nat) : Path.Inv2 (Path.P.new len) := Path.inv2_new len

example : StepsValid (Path.P.new 65540) [.static_ 4, .dynamic ⟨[(1, 65536)], 65536⟩] := by
  refine ⟨by decide, by decide, ?_⟩
  intro p' hp'
  have : p' = ⟨65540, 4, []⟩ := by
    simp [Path.staticStep, Path.P.new, uadd, asU16, u16Max] at hp'; exact hp'.symm
  subst this
  refine ⟨⟨by decide, ?_⟩, ?_, fun _ => trivial⟩
  · intro c hc; simp at hc; subst hc; decide
  · intro p'' h; simp [Path.capture, u16Max] at h

/-- the guard must test the FULL path (seeded change C19-1): with the guard on the unprocessed
tail, `/api` consumed and a 65536-byte path, the tail (65532 bytes) passes the guard and
`self.skip + end` = 4 + 65532 overflows `u16` -/
theorem witness_router_guard_on_tail_overflows :
    (Path.captureTailGuard ⟨65536, 4, []⟩ ⟨[(1, 65532)], 65532⟩).isPanic = true := by decide

/-- … whereas the real guard refuses that capture -/
theorem C19_router_guard_full_path_refuses :
    (match Path.capture ⟨65536, 4, []⟩ ⟨[(1, 65532)], 65532⟩ with
     | .ok none => true
     | _ => false) = true := by decide

/-! ## 4. `Range`: the typed header (`actix-web/src/http/header/range.rs`) and the files path
(`http-range` + `actix-files/src/named.rs`) -/

/-- **C19_no_panic_range_satisfiable**: `ByteRangeSpec::to_satisfiable_range` for every spec and
every `full_length` (including 0 and `u64::MAX`). -/
theorem C19_no_panic_range_satisfiable (spec : Range.Spec) (fl : Nat) :
    NoPanic (Range.toSatisfiable spec fl) := Range.toSatisfiable_noPanic spec fl

/-- **C19_range_satisfiable_bounds**: what it returns satisfies the documented guarantee
`from ≤ to < full_length`. -/
theorem C19_range_satisfiable_bounds (spec : Range.Spec) (fl a b : Nat)
    (h : Range.toSatisfiable spec fl = .ok (some (a, b))) : a ≤ b ∧ b < fl :=
  Range.toSatisfiable_bounds spec fl a b h

/-- **C19_no_panic_http_range**: `http_range::HttpRange::parse_bytes` (third-party, modelled from
source) for every header and every `u64` size — its own subtractions are all guarded. -/
theorem C19_no_panic_http_range (header : List Nat) (size : Nat) (hs : size ≤ u64Max) :
    NoPanic (Range.parseBytes header size) := (Range.parseBytes_spec header size hs).1

/-- **C19_no_panic_files_range**: full strength — every header, every `u64` file size including
the empty file (DESIGN §6 F7 was `Range: bytes=-5` on a 0-byte file; repaired by work-stream
C16's `fix:` — a zero-length range is answered 416 before `offset + length - 1` is computed). -/
theorem C19_no_panic_files_range (header : List Nat) (size : Nat) (hs : size ≤ u64Max) :
    NoPanic (Range.fileRange header size) := Range.fileRange_noPanic header size hs

/-- the former F7 witness input is now "416 Range Not Satisfiable" -/
theorem C19_files_range_empty_file_unsatisfiable :
    (match Range.fileRange [98, 121, 116, 101, 115, 61, 45, 53] 0 with
     | .ok (.unsatisfiable 0) => true
     | _ => false) = true := by decide

/-- **C19_files_range_bounds**: the announced `Content-Range` lies inside the file. -/
theorem C19_files_range_bounds (header : List Nat) (size f l sz len : Nat)
    (hs : size ≤ u64Max) (h : Range.fileRange header size = .ok (.partial_ f l sz len)) :
    f ≤ l ∧ l < size ∧ sz = size ∧ l + 1 = f + len :=
  Range.fileRange_bounds header size f l sz len hs h

/-! ## 5. `ContentDisposition::from_raw` (`content_disposition.rs`): byte-index slicing of a `String` -/

/-- **C19_no_panic_content_disposition**: for *every* byte string. The model's `strSplitAt` /
`strFrom` panic exactly when `str::is_char_boundary` is false; the proof goes through the fact
that valid UTF-8 (checked by `String::from_utf8` first) never has a continuation byte after an
ASCII byte, and that every slicing index is at or right after `;`, `=` or `"`. Includes
termination of the parameter loop (fuel `len + 1`: every parameter consumes ≥ 1 byte). -/
theorem C19_no_panic_content_disposition (hv : List Nat) : NoPanic (CD.fromRaw hv) :=
  CD.fromRaw_noPanic hv

/-- **C19_utf8_ascii_follow**: the lemma about UTF-8 that carries it. -/
theorem C19_utf8_ascii_follow (s : List Nat) (h : CD.utf8Valid s = true) (i b c : Nat)
    (hb : s[i]? = some b) (hc : s[i + 1]? = some c) (hlt : b < 128) : CD.isCont c = false :=
  CD.utf8Valid_AF s h i b c hb hc hlt

/-- the panic condition is live: the same parameter code on a byte string that is *not* valid
UTF-8 (a continuation byte right after the closing quote) does slice off a char boundary — so
the `from_utf8` check at the top of `from_raw` is what the theorem rests on -/
theorem witness_cd_slice_off_boundary_without_utf8_check :
    (CD.oneParam [97, 61, 34, 120, 34, 128]).isPanic = true := by decide

end ActixModel.Panic.C19
