import ActixModel.Model.Quoter
import ActixModel.Model.Pattern
/-
C10 — declarative specifications, written independently of the models' code paths.
(Only the type `Bytes := List UInt8` and the *syntax* of patterns — `Atom`, `Piece`, `Seg`,
`Suffix`, `DynPat`, `PatType`, `ResourceDef` — and `Atom.matches`, `blen` are taken from the models;
none of the matching code is.)
-/
namespace ActixModel.C10
open ActixModel.Quoter (Bytes)

/-! ## Spec of partial percent-decoding (written independently of the model)

An *escape* is `%` followed by two ASCII hex digits; its value is `16·hi + lo`.  Decoding goes
left to right: an escape whose value is not protected is replaced by its value (and the scan
continues *after* it); every other byte is copied. -/

def isHexDigit (b : UInt8) : Bool :=
  (48 ≤ b && b ≤ 57) || (65 ≤ b && b ≤ 70) || (97 ≤ b && b ≤ 102)

def hexDigitVal (b : UInt8) : Nat :=
  if b ≤ 57 then b.toNat - 48 else if b ≤ 70 then b.toNat - 55 else b.toNat - 87

/-- value of a valid, non-protected `%HH` escape at the head of `s` -/
def escapeSpec (prot : Bytes) : Bytes → Option UInt8
  | p :: h :: l :: _ =>
    if p = 37 ∧ isHexDigit h = true ∧ isHexDigit l = true then
      let v := UInt8.ofNat (16 * hexDigitVal h + hexDigitVal l)
      if v ∈ prot then none else some v
    else none
  | _ => none

def decodeSpec (prot : Bytes) (s : Bytes) : Bytes :=
  match s with
  | [] => []
  | b :: rest =>
    match escapeSpec prot (b :: rest) with
    | some v => v :: decodeSpec prot (rest.drop 2)
    | none => b :: decodeSpec prot rest
termination_by s.length
decreasing_by
  · simp only [List.length_drop, List.length_cons]; omega
  · simp

/-- `Quoter::requote` per its doc comment: `None` when nothing had to be changed -/
def requoteSpec (prot : Bytes) (s : Bytes) : Option Bytes :=
  if ∃ i, i < s.length ∧ (escapeSpec prot (s.drop i)).isSome then some (decodeSpec prot s) else none

/-- percent-encode every byte (upper-case hex) -/
def hexChar (n : Nat) : UInt8 := if n < 10 then UInt8.ofNat (48 + n) else UInt8.ofNat (55 + n)

def encodeAll : Bytes → Bytes
  | [] => []
  | b :: rest => 37 :: hexChar (b.toNat / 16) :: hexChar (b.toNat % 16) :: encodeAll rest


/-! ## Spec of pattern matching: the language of a pattern (declarative, no priorities)

In the words of the property: static text matches itself; a dynamic segment matches a non-empty
run without `/` (`defaultRe`); a custom regex or tail segment matches its language; a match of
a prefix resource ends at end-of-path or in front of a `/`; of a full resource at end-of-path. -/

open ActixModel.Pattern

/-- `w` is a run of the greedy piece `atom{min,max}` -/
def RepOk (a : Atom) (mn : Nat) (mx : Option Nat) (w : List Char) : Prop :=
  (∀ c ∈ w, a.matches c = true) ∧ mn ≤ w.length ∧ (∀ m, mx = some m → w.length ≤ m)

/-- language of a sequence of pieces -/
inductive LangRe : Re → List Char → Prop where
  | nil : LangRe [] []
  | cons {p : Piece} {ps : Re} {w v : List Char} :
      RepOk p.atom p.min p.max w → LangRe ps v → LangRe (p :: ps) (w ++ v)

/-- language of a segment list, with the value of every dynamic segment -/
inductive LangSegs : List Seg → List Char → List (Name × List Char) → Prop where
  | nil : LangSegs [] [] []
  | const {cs : List Char} {rest : List Seg} {v : List Char} {vals : List (Name × List Char)} :
      LangSegs rest v vals → LangSegs (.const cs :: rest) (cs ++ v) vals
  | var {n : Name} {re : Re} {rest : List Seg} {w v : List Char} {vals : List (Name × List Char)} :
      LangRe re w → LangSegs rest v vals → LangSegs (.var n re :: rest) (w ++ v) ((n, w) :: vals)

/-- where a match may end -/
def SuffixOk : Suffix → List Char → Prop
  | .eos, rest => rest = []
  | .slashOrEos, rest => rest = [] ∨ ∃ t, rest = '/' :: t
  | .open, _ => True

/-- one dynamic pattern matches a prefix `m` of `path` (of `n` bytes) with values `vals` -/
def LangDyn (d : DynPat) (path : List Char) (n : Nat) (vals : List (Name × List Char)) : Prop :=
  ∃ m rest, path = m ++ rest ∧ LangSegs d.segs m vals ∧ SuffixOk d.suffix rest ∧ n = blen m

/-- the resource definition matches `path`: matched length (bytes) and values.  For a pattern
list: the first pattern (in order) that matches at all. -/
def Matches (rd : ResourceDef) (path : List Char) (n : Nat) (vals : List (Name × List Char)) : Prop :=
  match rd.patType with
  | .static p =>
    ∃ rest, path = p ++ rest ∧ n = blen p ∧ vals = [] ∧
      (if rd.isPrefix then (rest = [] ∨ ∃ t, rest = '/' :: t) else rest = [])
  | .dynamic d => LangDyn d path n vals
  | .dynamicSet ds =>
    ∃ i d, ds[i]? = some d ∧ LangDyn d path n vals ∧
      ∀ (j : Nat) (d' : DynPat), j < i → ds[j]? = some d' → ¬ ∃ n' vals', LangDyn d' path n' vals'

/-- group names are pairwise distinct (the `regex` crate rejects duplicates; `parse` checks it) -/
def DynWF (d : DynPat) : Prop := allDistinct d.names = true

def DefWF (rd : ResourceDef) : Prop :=
  match rd.patType with
  | .static _ => True
  | .dynamic d => DynWF d
  | .dynamicSet ds => ∀ d ∈ ds, DynWF d

/-- "slash-separated" patterns: no dynamic segment can contain a `/`, and each one is followed
by the end of the pattern or by static text starting with `/` (e.g. `/user/{id}/post/{title}`) -/
def Separated : List Seg → Prop
  | [] => True
  | .const _ :: rest => Separated rest
  | .var _ re :: rest =>
    (∀ w, LangRe re w → '/' ∉ w) ∧ (rest = [] ∨ ∃ cs rest', rest = .const ('/' :: cs) :: rest') ∧
      Separated rest

/-- a segment name without braces or colon (what one writes between `{` and `}`) -/
def plainName (name : List Char) : Prop := '{' ∉ name ∧ '}' ∉ name ∧ ':' ∉ name

/-- a routing descent: try the definitions one after the other on the same `Path` (a failed
step leaves it untouched, a successful one advances it); `none` = one of the steps panicked -/
def stepAll : List ResourceDef → PathState → Option PathState
  | [], st => some st
  | rd :: rest, st =>
    match rd.captureMatchInfo st with
    | .panic => none
    | .noMatch => stepAll rest st
    | .matched st' => stepAll rest st'

/-- the substring of `path` between two byte offsets (both on character boundaries) -/
def Substr (path : List Char) (st en : Nat) (w : List Char) : Prop :=
  ∃ a b, path = a ++ w ++ b ∧ st = blen a ∧ en = blen a + blen w

/-- the spans, one per value and in the same order, carry the value's name, are the byte
offsets of that value inside `path`, and end within the first `bound` bytes -/
def SpansOk (path : List Char) (bound : Nat) :
    List (Name × Nat × Nat) → List (Name × List Char) → Prop
  | [], [] => True
  | sp :: sps, v :: vs =>
    sp.1 = v.1 ∧ Substr path sp.2.1 sp.2.2 v.2 ∧ sp.2.2 ≤ bound ∧ SpansOk path bound sps vs
  | _, _ => False

/-- byte spans of the values when the segments are laid out from byte `pos` -/
def spansOf : List Seg → Nat → List (Name × List Char) → List (Name × Nat × Nat)
  | [], _, _ => []
  | .const cs :: rest, pos, vals => spansOf rest (pos + blen cs) vals
  | .var _ _ :: _, _, [] => []
  | .var n _ :: rest, pos, (_, w) :: vals => (n, pos, pos + blen w) :: spansOf rest (pos + blen w) vals

end ActixModel.C10
