import ActixModel.Model.Quoter
/-
C10 — declarative specifications, written independently of the models' code paths.
(Only the type `Bytes := List UInt8` is taken from the model.)
-/
namespace ActixModel.C10
open ActixModel.Quoter (Bytes)

/-! ## Spec of partial percent-decoding (written independently of the model)

An *escape* is `%` followed by two ASCII hex digits; its value is `16·hi + lo`.  Decoding goes
left to right: an escape whose value is not protected is replaced by its value (and the scan
continues *after* it); every other byte is copied. -/

def isHexDigit (b : UInt8) : Bool :=
  (48 ≤ b && b ≤ 57) || (65 ≤ b && b ≤ 70) || (97 ≤ b && b ≤ 102)

def hexDigitVal (b : UInt8) : Nat :=
  if b ≤ 57 then b.toNat - 48 else if b ≤ 70 then b.toNat - 55 else b.toNat - 87

/-- value of a valid, non-protected `%HH` escape at the head of `s` -/
def escapeSpec (prot : Bytes) : Bytes → Option UInt8
  | p :: h :: l :: _ =>
    if p = 37 ∧ isHexDigit h = true ∧ isHexDigit l = true then
      let v := UInt8.ofNat (16 * hexDigitVal h + hexDigitVal l)
      if v ∈ prot then none else some v
    else none
  | _ => none

def decodeSpec (prot : Bytes) (s : Bytes) : Bytes :=
  match s with
  | [] => []
  | b :: rest =>
    match escapeSpec prot (b :: rest) with
    | some v => v :: decodeSpec prot (rest.drop 2)
    | none => b :: decodeSpec prot rest
termination_by s.length
decreasing_by
  · simp only [List.length_drop, List.length_cons]; omega
  · simp

/-- `Quoter::requote` per its doc comment: `None` when nothing had to be changed -/
def requoteSpec (prot : Bytes) (s : Bytes) : Option Bytes :=
  if ∃ i, i < s.length ∧ (escapeSpec prot (s.drop i)).isSome then some (decodeSpec prot s) else none

/-- percent-encode every byte (upper-case hex) -/
def hexChar (n : Nat) : UInt8 := if n < 10 then UInt8.ofNat (48 + n) else UInt8.ofNat (55 + n)

def encodeAll : Bytes → Bytes
  | [] => []
  | b :: rest => 37 :: hexChar (b.toNat / 16) :: hexChar (b.toNat % 16) :: encodeAll rest

end ActixModel.C10
