import ActixModel.Model.Payload
/-
Spec for C07, in the property's own words, as a *history automaton*: `Hist` is computed from the
observable history only — the operations issued on the two handles and what each returned /
whom it woke — never from the channel's internal state.  `StepOk h op o` is the acceptance
condition for the next observation `(op, o)` after history `h`.  The Rust oracle
(`harness/src/props/c07.rs`, `struct Oracle`) is the same automaton written independently
(byte level instead of chunk level) and is evaluated on the real code's observations; the
theorems of `Props/C07.lean` say every trace of the model is accepted.

Core only (no Mathlib); imports the model only for the `Op`/`Out` vocabulary.
-/
namespace ActixModel.Payload
open ActixModel.Consts

variable {β : Type}

def sumSizes [Chunk β] (xs : List β) : Nat := (xs.map Chunk.size).sum

structure Hist (β : Type) where
  /-- the sender handle still exists -/
  sAlive : Bool
  /-- the reader handle still exists -/
  rAlive : Bool
  /-- ghost log: every chunk fed while both ends were alive, in order, with `unread_data`
  re-insertions placed at the reader's current position -/
  log : List β
  /-- chunks the reader has been handed so far -/
  yielded : List β
  /-- `feed_eof` was accepted (or the channel was created with `eof = true`) -/
  eofSignalled : Bool
  /-- some error was set at some point (by `set_error`, or by the sender vanishing first) -/
  errEver : Bool
  /-- the error that is set and not yet reported to the reader -/
  errOutstanding : Option PErr
  /-- the reader's last poll said Pending with this waker and nobody woke it since -/
  parkedReader : Option WakerId
  /-- the feeder's last `need_read` said Pause with this waker and nobody woke it since -/
  parkedFeeder : Option WakerId

namespace Hist

def init (eof : Bool) : Hist β :=
  { sAlive := true, rAlive := true, log := [], yielded := [], eofSignalled := eof, errEver := false,
    errOutstanding := none, parkedReader := none, parkedFeeder := none }

/-- what has been fed and not yet handed to the reader -/
def outstanding (h : Hist β) : List β := h.log.drop h.yielded.length

def unpark (p : Option WakerId) (wakes : List WakerId) : Option WakerId :=
  match p with
  | some w => if wakes.contains w then none else some w
  | none => none

/-- book-keeping for one observation -/
def observe (h : Hist β) (op : Op β) (o : Out β) : Hist β :=
  match op with
  | .feedData b => if h.sAlive && h.rAlive then { h with log := h.log ++ [b] } else h
  | .feedEof => if h.sAlive && h.rAlive then { h with eofSignalled := true } else h
  | .setError e =>
    if h.sAlive && h.rAlive then { h with errEver := true, errOutstanding := some e } else h
  | .dropSender =>
    if h.sAlive && h.rAlive && !h.eofSignalled && !h.errEver then
      -- the feeding side disappears first: the body is incomplete
      { h with sAlive := false, errEver := true, errOutstanding := some .incomplete }
    else { h with sAlive := false }
  | .needRead w =>
    if h.sAlive then
      match o.res with
      | .status .pause => { h with parkedFeeder := some w }
      | _ => { h with parkedFeeder := none }
    else h
  | .isDropped => h
  | .pollNext w =>
    if h.rAlive then
      match o.res with
      | .poll .pending => { h with parkedReader := some w }
      | .poll (.data b) => { h with yielded := h.yielded ++ [b], parkedReader := none }
      | .poll (.error _) => { h with errOutstanding := none, parkedReader := none }
      | _ => { h with parkedReader := none }
    else h
  | .unreadData b =>
    if h.rAlive then
      { h with log := h.yielded ++ b :: h.outstanding, parkedReader := none }
    else h
  | .dropReader => { h with rAlive := false, parkedReader := none }

/-- one observation: book-keeping, then whoever was woken is no longer parked -/
def step (h : Hist β) (op : Op β) (o : Out β) : Hist β :=
  let h1 := h.observe op o
  { h1 with parkedReader := unpark h1.parkedReader o.wakes,
            parkedFeeder := unpark h1.parkedFeeder o.wakes }

/-- a whole observed trace -/
def runWith (h : Hist β) : List (Op β) → List (Out β) → Hist β
  | op :: ops, o :: os => (h.step op o).runWith ops os
  | _, _ => h

end Hist

/-- "data, end, error or (first) sender drop": the events a parked reader must be woken by -/
def readerEvent (h : Hist β) : Op β → Bool
  | .feedData _ => h.sAlive && h.rAlive
  | .feedEof => h.sAlive && h.rAlive
  | .setError _ => h.sAlive && h.rAlive
  | .dropSender => h.sAlive && h.rAlive && !h.eofSignalled && !h.errEver
  | _ => false

/-- Acceptance condition for the next observation, clause by clause from the property text. -/
structure StepOk [Chunk β] (h : Hist β) (op : Op β) (o : Out β) : Prop where
  /-- exact bytes, in order: a yielded chunk is the next outstanding chunk of the log -/
  data_exact : ∀ w b, op = .pollNext w → o.res = .poll (.data b) → h.rAlive = true →
    ∃ rest, h.outstanding = b :: rest
  /-- an error is reported only after all data, and it is the error that was set
  (`incomplete` if the feeding side vanished first) -/
  error_truthful : ∀ w e, op = .pollNext w → o.res = .poll (.error e) → h.rAlive = true →
    h.outstanding = [] ∧ h.errOutstanding = some e
  /-- a clean end only after all data, only if the end was signalled, never hiding a set error -/
  end_truthful : ∀ w, op = .pollNext w → o.res = .poll .eos → h.rAlive = true →
    h.outstanding = [] ∧ h.eofSignalled = true ∧ h.errOutstanding = none
  /-- Pending only if there is really nothing to report -/
  pending_honest : ∀ w, op = .pollNext w → o.res = .poll .pending → h.rAlive = true →
    h.outstanding = [] ∧ h.eofSignalled = false ∧ h.errOutstanding = none
  /-- a reader that saw Pending is woken by the next data, end, error or sender drop -/
  reader_woken : ∀ w, h.parkedReader = some w → readerEvent h op = true → w ∈ o.wakes
  /-- a feeder told to pause is woken once the reader drains below the buffering limit -/
  feeder_woken : ∀ w wf b, op = .pollNext w → o.res = .poll (.data b) → h.rAlive = true →
    h.parkedFeeder = some wf → sumSizes (h.outstanding.drop 1) < payloadMaxBufferSize → wf ∈ o.wakes
  /-- …and it is only ever told to pause when the buffer is at the limit (so that a drain exists) -/
  pause_full : ∀ w, op = .needRead w → o.res = .status .pause →
    payloadMaxBufferSize ≤ sumSizes h.outstanding

/-- every observation of a trace is acceptable after the history before it -/
def TraceOk [Chunk β] (h : Hist β) : List (Op β) → List (Out β) → Prop
  | op :: ops, o :: os => StepOk h op o ∧ TraceOk (h.step op o) ops os
  | _, _ => True

section
variable [Chunk β]

/-! ### trace vocabulary used by the theorem statements -/

/-- the observable history after running `ops` on a fresh `Payload::create(eof)` pair -/
def hist (eof : Bool) (ops : List (Op β)) : Hist β :=
  (Hist.init eof).runWith ops (Chan.outs (Chan.create eof) ops)

/-- the channel state after `ops` -/
def state (eof : Bool) (ops : List (Op β)) : Chan β := Chan.exec (Chan.create eof) ops

/-- what the next operation `op` returns / wakes after `ops` -/
def next (eof : Bool) (ops : List (Op β)) (op : Op β) : Out β := (Chan.step (state eof ops) op).2

/-- the chunks a trace handed to the reader -/
def yieldedOf : List (Out β) → List β
  | [] => []
  | ⟨.poll (.data b), _⟩ :: os => b :: yieldedOf os
  | _ :: os => yieldedOf os

/-- the chunks accepted by `feed_data`, read off the operation sequence alone: those issued while
both handles still exist -/
def fedChunks : Bool → Bool → List (Op β) → List β
  | _, _, [] => []
  | s, r, .feedData b :: ops => if s && r then b :: fedChunks s r ops else fedChunks s r ops
  | _, r, .dropSender :: ops => fedChunks false r ops
  | s, _, .dropReader :: ops => fedChunks s false ops
  | s, r, _ :: ops => fedChunks s r ops

def isUnread : Op β → Bool
  | .unreadData _ => true
  | _ => false

def isFeedEof : Op β → Bool
  | .feedEof => true
  | _ => false

end

end ActixModel.Payload
