/-
Shared helpers for the line-protocol drivers. Import-free (core only) so that the
driver executable links without Mathlib/Batteries.
-/
namespace ActixModel.Util

abbrev Bytes := List UInt8

def hexDigit (n : Nat) : Char :=
  if n < 10 then Char.ofNat (48 + n) else Char.ofNat (87 + n)

def hexOfByte (b : UInt8) : String :=
  String.ofList [hexDigit (b.toNat / 16), hexDigit (b.toNat % 16)]

def hexOfBytes (bs : Bytes) : String :=
  String.ofList (bs.flatMap fun b => [hexDigit (b.toNat / 16), hexDigit (b.toNat % 16)])

def hexVal (c : Char) : Option Nat :=
  if '0' ≤ c ∧ c ≤ '9' then some (c.toNat - 48)
  else if 'a' ≤ c ∧ c ≤ 'f' then some (c.toNat - 87)
  else if 'A' ≤ c ∧ c ≤ 'F' then some (c.toNat - 55)
  else none

def bytesOfHexAux : List Char → Bytes → Option Bytes
  | [], acc => some acc.reverse
  | [_], _ => none
  | a :: b :: rest, acc =>
    match hexVal a, hexVal b with
    | some x, some y => bytesOfHexAux rest (UInt8.ofNat (x * 16 + y) :: acc)
    | _, _ => none

/-- Parse lower/upper-case hex; "-" and "" both mean the empty byte string. -/
def bytesOfHex (s : String) : Option Bytes :=
  if s == "-" then some [] else bytesOfHexAux s.toList []

def bytesOfString (s : String) : Bytes := s.toUTF8.toList

def stringOfBytes (bs : Bytes) : String :=
  String.ofList (bs.map fun b => Char.ofNat b.toNat)

def joinWith (sep : String) : List String → String
  | [] => ""
  | [x] => x
  | x :: xs => x ++ sep ++ joinWith sep xs

def words (line : String) : List String :=
  (line.trimAscii.toString.splitOn " ").filter (· ≠ "")

/-- Look up `key=value` among space separated words. -/
def kv (ws : List String) (key : String) : Option String :=
  match ws.find? (fun w => w.startsWith (key ++ "=")) with
  | some w => some ((w.drop (key.length + 1)).toString)
  | none => none

def kvNat (ws : List String) (key : String) (dflt : Nat) : Nat :=
  match kv ws key with
  | some v => v.toNat?.getD dflt
  | none => dflt

end ActixModel.Util
