import ActixModel.Drv.C01
import ActixModel.Drv.C02
import ActixModel.Drv.C03
import ActixModel.Drv.C04
import ActixModel.Drv.C05
import ActixModel.Drv.C06
import ActixModel.Drv.C07
import ActixModel.Drv.C08
import ActixModel.Drv.C09
import ActixModel.Drv.C10
import ActixModel.Drv.C11
import ActixModel.Drv.C12
import ActixModel.Drv.C13
import ActixModel.Drv.C14
import ActixModel.Drv.C15
import ActixModel.Drv.C16
import ActixModel.Drv.C17
import ActixModel.Drv.C18
import ActixModel.Drv.C19
/-
`actix_model_driver <prop>`: reads one case per line on stdin, writes one result line per case.
Imports only `ActixModel.Drv.*` (which import only `ActixModel.Model.*`/`Util`): no Mathlib, so
the executable links.
-/
open ActixModel

def dispatch (prop : String) : Option (String → String) :=
  match prop with
  | "c01" => some Drv.C01.run
  | "c02" => some Drv.C02.run
  | "c03" => some Drv.C03.run
  | "c04" => some Drv.C04.run
  | "c05" => some Drv.C05.run
  | "c06" => some Drv.C06.run
  | "c07" => some Drv.C07.run
  | "c08" => some Drv.C08.run
  | "c09" => some Drv.C09.run
  | "c10" => some Drv.C10.run
  | "c11" => some Drv.C11.run
  | "c12" => some Drv.C12.run
  | "c13" => some Drv.C13.run
  | "c14" => some Drv.C14.run
  | "c15" => some Drv.C15.run
  | "c16" => some Drv.C16.run
  | "c17" => some Drv.C17.run
  | "c18" => some Drv.C18.run
  | "c19" => some Drv.C19.run
  | _ => none

partial def loop (h : IO.FS.Stream) (out : IO.FS.Stream) (f : String → String) : IO Unit := do
  let line ← h.getLine
  if line.isEmpty then return ()
  let l := if line.endsWith "\n" then (line.dropEnd 1).toString else line
  out.putStrLn (f l)
  loop h out f

def main (args : List String) : IO UInt32 := do
  match args with
  | [prop] =>
    match dispatch prop with
    | some f =>
      let out ← IO.getStdout
      loop (← IO.getStdin) out f
      out.flush
      return 0
    | none => IO.eprintln s!"unknown property {prop}"; return 2
  | _ => IO.eprintln "usage: actix_model_driver <prop> < cases > results"; return 2
