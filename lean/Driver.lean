import ActixModel.Drv.C18
/-
`actix_model_driver <prop>`: reads one case per line on stdin, writes one result line per case.
Imports only `ActixModel.Drv.*` (which import only `ActixModel.Model.*`/`Util`): no Mathlib, so
the executable links.
-/
open ActixModel

def dispatch (prop : String) : Option (String → String) :=
  match prop with
  | "c18" => some Drv.C18.run
  | _ => none

partial def loop (h : IO.FS.Stream) (out : IO.FS.Stream) (f : String → String) : IO Unit := do
  let line ← h.getLine
  if line.isEmpty then return ()
  let l := if line.endsWith "\n" then (line.dropEnd 1).toString else line
  out.putStrLn (f l)
  loop h out f

def main (args : List String) : IO UInt32 := do
  match args with
  | [prop] =>
    match dispatch prop with
    | some f =>
      let out ← IO.getStdout
      loop (← IO.getStdin) out f
      out.flush
      return 0
    | none => IO.eprintln s!"unknown property {prop}"; return 2
  | _ => IO.eprintln "usage: actix_model_driver <prop> < cases > results"; return 2
