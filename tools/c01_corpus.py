#!/usr/bin/env python3
"""Regenerate corpus/C01.cases (hand-picked replays and edge cases for property C01) from readable
byte strings.  Usage: python3 tools/c01_corpus.py > corpus/C01.cases"""
import binascii
def hx(b): return binascii.hexlify(b).decode() or '-'
L=[]
def case(comment, level, spec, data, extra=''):
    L.append('# '+comment)
    L.append('%s s=%s%s %s' % (level, spec, (' '+extra) if extra else '', hx(data)))
CH=b"POST /u HTTP/1.1\r\nHost: h\r\nTransfer-Encoding: chunked\r\n\r\n"
NEXT=b"GET /smuggled HTTP/1.1\r\nHost: h\r\n\r\n"
FIRST=b"GET /first HTTP/1.1\r\nHost: h\r\n\r\n"
# F12 and variants (DESIGN §6 F12): must be rejected since the fix
case('F12: empty chunk-size line accepted as last-chunk; next request parsed (fixed d931584)','codec','w',CH+b"\r\n\r\n"+NEXT,'cls=ch-empty-size')
case('F12 under every 2-cut','codec','a2',CH+b"\r\n\r\n"+NEXT,'cls=ch-empty-size')
case('F12 variant: BWS only','codec','a2',CH+b" \r\n\r\n"+NEXT,'cls=ch-lws-only')
case('F12 variant: extension only','codec','a2',CH+b";x=y\r\n\r\n"+NEXT,'cls=ch-ext-only')
case('F12 after a real chunk','codec','b1',CH+b"3\r\nabc\r\n\r\n\r\n"+NEXT,'cls=ch-empty-size')
case('F12 at connection level: 400, closed, /smuggled never dispatched','conn','c59.63',CH+b"\r\n\r\n"+NEXT,'e=0 cls=ch-empty-size')
case('F12 at connection level, 1-byte reads, write side pending every other call','conn','b1',CH+b"\r\n\r\n"+NEXT,'e=0 wp=1 cls=ch-empty-size')
# bad chunk syntax must be answered with a 4xx (fixed a38372c)
case('bad chunk syntax was handled as a lost peer: no 4xx (fixed a38372c)','conn','w',CH+b"3\r\nabc\r\nzz\r\n"+NEXT,'e=0 cls=ch-badsize')
case('same with the write side pending: the bytes after the reject must not be decoded on the next poll','conn','w',CH+b"3\r\nabc\r\nzz\r\n"+NEXT,'e=0 wp=1 cls=ch-badsize')
case('chunk-size overflow at connection level','conn','b1',CH+b"10000000000000000\r\n"+NEXT,'e=0 cls=ch-overflow')
case('last-chunk size line CR not followed by LF','codec','a2',CH+b"0\rX\r\n"+NEXT,'cls=ch-last-nolf')
case('trailers are not supported: rejected (documented over-strictness)','conn','w',CH+b"0\r\nX-T: v\r\n\r\n"+NEXT,'e=0 cls=ch-trailer')
# header name longer than HeaderName allows: panic (fixed 98776f7)
case('header name of 70000 bytes panicked the decoder (fixed 98776f7)','codec','w',b"GET / HTTP/1.1\r\n"+b"a"*70000+b": x\r\n\r\n"+NEXT,'cls=bigname')
case('same at connection level','conn','w',b"GET / HTTP/1.1\r\n"+b"a"*70000+b": x\r\n\r\n"+NEXT,'e=0 cls=bigname')
# classic smuggling shapes
for name,head in [
 ('cl+te', b"POST /a HTTP/1.1\r\nContent-Length: 4\r\nTransfer-Encoding: chunked\r\n\r\n0\r\n\r\n"),
 ('te+cl', b"POST /a HTTP/1.1\r\nTransfer-Encoding: chunked\r\nContent-Length: 4\r\n\r\n0\r\n\r\n"),
 ('dup-cl-same', b"POST /a HTTP/1.1\r\nContent-Length: 3\r\nContent-Length: 3\r\n\r\nabc"),
 ('dup-cl-diff', b"POST /a HTTP/1.1\r\nContent-Length: 3\r\nContent-Length: 0\r\n\r\nabc"),
 ('cl-plus', b"POST /a HTTP/1.1\r\nContent-Length: +3\r\n\r\nabc"),
 ('cl-list', b"POST /a HTTP/1.1\r\nContent-Length: 3, 3\r\n\r\nabc"),
 ('cl-overflow', b"POST /a HTTP/1.1\r\nContent-Length: 18446744073709551616\r\n\r\nabc"),
 ('te-twice', b"POST /a HTTP/1.1\r\nTransfer-Encoding: chunked\r\nTransfer-Encoding: chunked\r\n\r\n0\r\n\r\n"),
 ('te-http10', b"POST /a HTTP/1.0\r\nTransfer-Encoding: chunked\r\n\r\n0\r\n\r\n"),
 ('te-xchunked', b"POST /a HTTP/1.1\r\nTransfer-Encoding: xchunked\r\n\r\n0\r\n\r\n"),
 ('te-chunked-gzip', b"POST /a HTTP/1.1\r\nTransfer-Encoding: chunked, gzip\r\n\r\n0\r\n\r\n"),
 ('te-identity', b"GET /a HTTP/1.1\r\nTransfer-Encoding: identity\r\n\r\n"),
 ('sp-before-colon', b"POST /a HTTP/1.1\r\nTransfer-Encoding : chunked\r\n\r\n0\r\n\r\n"),
 ('post10-nocl', b"POST /a HTTP/1.0\r\nHost: h\r\n\r\n"),
]:
    case('malformed class %s, followed by a request that must never be seen' % name,'codec','a2',FIRST+head+NEXT,'cls='+name)
    case('%s at connection level (write side pending)' % name,'conn','c33',FIRST+head+NEXT,'e=0 wp=1 cls='+name)
# pipelining overlap in the dispatcher (DESIGN F1c, fixed on main by 4ad0000; seeded change C01-3):
# the read that completes request N also holds the head and part of the body of request N+1
PA=b"POST /a HTTP/1.1\r\nContent-Length: 3\r\n\r\nabc"
PB=b"POST /b HTTP/1.1\r\nContent-Length: 5\r\n\r\nhello"
PC=b"GET /c HTTP/1.1\r\n\r\n"
for rb in (0,1,2):
    case('F1c: every 2-cut of POST /a, POST /b, GET /c; handler answers with body kind %d' % rb,'conn','a2',PA+PB+PC,'e=0 wp=0 rb=%d' % rb)
case('F1c: the cut two bytes before the end of /b (was: /b never completed, /c never seen)','conn','c84',PA+PB+PC,'e=0 wp=1 rb=1')
SEED=b"GET /a HTTP/1.1\r\nHost: x\r\n\r\nPOST /b HTTP/1.1\r\nHost: x\r\nContent-Length: 10\r\n\r\nhelloworldPOST /c HTTP/1.1\r\nHost: x\r\nTransfer-Encoding: chunked\r\n\r\n4\r\nwxyz\r\n0\r\n\r\nGET /d HTTP/1.1\r\nHost: x\r\n\r\n"
for rb in (1,2):
    case('seeded C01-3 shape: GET, POST(CL), POST(chunked), GET; non-empty response bodies; every 2-cut','conn','a2',SEED,'e=0 wp=0 rb=%d' % rb)
case('same, one byte per read, write side pending','conn','b1',SEED,'e=1 wp=1 rb=2')
# well-formed edge cases
LONG=CH+b"A;x=\"1 2\"\r\n0123456789\r\n0003 \t\r\nabc\r\n1\t;q\r\nZ\r\n000;last\r\n\r\n"+NEXT
case('CL 0 then pipelined request; HTTP/1.0 POST with CL 0','codec','a2',b"POST /a HTTP/1.0\r\nContent-Length: 0\r\nConnection: keep-alive\r\n\r\nGET /b HTTP/1.1\r\n\r\n")
case('chunked with extensions, BWS, upper-case hex, leading zeros; cut everywhere','codec','a2',LONG)
case('same, one byte per read','codec','b1',LONG)
case('same at connection level, one byte per read','conn','b1',LONG,'e=1')
case('body that looks like a request','codec','a2',b"POST /a HTTP/1.1\r\nContent-Length: 37\r\n\r\n"+NEXT+b"GET /b HTTP/1.1\r\n\r\n")
case('upgrade: websocket with Content-Length: the rest of the connection is the stream','codec','a2',b"GET /ws HTTP/1.1\r\nUpgrade: websocket\r\nConnection: upgrade\r\nContent-Length: 3\r\n\r\nabc"+NEXT)
case('CONNECT','codec','a2',b"CONNECT example.com:443 HTTP/1.1\r\nHost: example.com:443\r\n\r\n\x16\x03\x01"+NEXT)
case('leading empty lines before a request line','codec','a2',b"\r\n\r\nGET /a HTTP/1.1\r\n\r\n\r\nGET /b HTTP/1.1\r\n\r\n")
case('97 headers: 431','codec','w',b"GET / HTTP/1.1\r\n"+b"".join(b"X-%d: v\r\n"%i for i in range(97))+b"\r\n"+NEXT,'cls=too-many-headers')
case('96 headers: accepted','codec','w',b"GET / HTTP/1.1\r\n"+b"".join(b"X-%d: v\r\n"%i for i in range(96))+b"\r\n"+NEXT)
# head size limit
pre=b"GET / HTTP/1.1\r\nX-Big: "
big=pre+b"a"*131072
case('unterminated head of >= 131072 bytes: 431','codec','w',big,'cls=oversize')
case('same in two reads','codec','c70000',big,'cls=oversize')
case('same at connection level','conn','w',big,'e=0 cls=oversize')
case('unterminated head of exactly MAX_BUFFER_SIZE bytes: 431 (>=, not >)','codec','w',big[:131072],'cls=oversize')
case('one byte less: still waiting','codec','w',big[:131071])
case('exactly MAX_BUFFER_SIZE at connection level','conn','w',big[:131072],'e=0 cls=oversize')
case('complete head larger than the limit in one read is accepted; in two reads it is refused with 431 (limit is only tested on a partial head; tolerated, see docs)','codec','c131080',big+b"\r\n\r\n"+NEXT)
case('same, whole','codec','w',big+b"\r\n\r\n"+NEXT)
print('\n'.join(L))
