def h(s): return s.encode().hex()
good = h("HTTP/1.1 200 OK\r\ncontent-length: 2\r\n\r\nok")
def R(a,m,mode,pre,flag,post=None):
    if isinstance(pre,str): pre=[pre]
    segs="|".join(h(x) for x in pre if x) or "-"
    return "r:%s:%s:%s:%s%s.%s" % (a,m,mode,segs, ("/"+(h(post) or "-")) if post is not None else "", flag)
G = lambda a: "r:%s:g:f:%s.k" % (a, good)
L=[]
def c(comment, line): L.append("# "+comment); L.append(line)
c("F8 (DESIGN §6): content-length 10, 3 bytes, close  => must be an error (was Ok(\"abc\") before fix 318c8c3)",
  "lim=1 " + R('a','g','f',"HTTP/1.1 200 OK\r\ncontent-length: 10\r\n\r\nabc",'c') + " " + G('a'))
c("F8: close in the middle of a chunk / after a chunk / inside the size line / before the last CRLF",
  "lim=1 " + R('a','g','f',"HTTP/1.1 200 OK\r\ntransfer-encoding: chunked\r\n\r\n5\r\nab",'c') + " " + G('a'))
L.append("lim=1 " + R('a','g','f',"HTTP/1.1 200 OK\r\ntransfer-encoding: chunked\r\n\r\n2\r\nab\r\n",'c') + " " + G('a'))
L.append("lim=1 " + R('a','g','f',"HTTP/1.1 200 OK\r\ntransfer-encoding: chunked\r\n\r\n2\r\nab\r\n1",'c') + " " + G('a'))
L.append("lim=1 " + R('a','g','f',"HTTP/1.1 200 OK\r\ntransfer-encoding: chunked\r\n\r\n2\r\nab\r\n0\r\n\r",'c') + " " + G('a'))
c("F8 counterpart: HTTP/1.0 read-until-close ends cleanly with the connection",
  "lim=1 " + R('a','g','f',"HTTP/1.0 200 OK\r\n\r\nhello",'c') + " " + G('a'))
c("F9 (DESIGN §6, KNOWN FINDING): limit(1), request to A completes, request to B => 2 sockets open",
  "lim=1 %s %s" % (G('a'), G('b')))
c("F9 with a concurrent batch: idle socket of b + 2 in use for a, limit 2",
  "lim=2 %s par:aaa %s" % (G('b'), G('b')))
c("limit respected for one authority: 5 concurrent requests, limit 2 => 2 sockets, 3 reuses",
  "lim=2 par:aaaaa")
L.append("lim=1 par:aaa")
L.append("lim=3 par:aaaaaa %s" % G('a'))
c("reuse only after the body was read to its end: early drop closes the socket",
  "lim=1 %s %s r:a:g:p0:%s.k %s" % (G('a'), G('a'), good, G('a')))
c("dropped after exactly all body bytes but before the end marker was polled: not reused",
  "lim=1 r:a:g:p2:%s.k %s" % (good, G('a')))
c("leftover in the same segment as the end of the response: discarded with the Framed, socket reused",
  "lim=1 " + R('a','g','f',"HTTP/1.1 200 OK\r\ncontent-length: 2\r\n\r\nokXYZ",'k') + " " + G('a'))
c("forged response sent after the exchange: socket is tainted and closed at the next acquire",
  "lim=1 " + R('a','g','f',"HTTP/1.1 200 OK\r\ncontent-length: 2\r\n\r\nok",'k',"HTTP/1.1 200 OK\r\ncontent-length: 4\r\n\r\nEVIL") + " " + G('a'))
c("server closes after a complete keep-alive response: pooled, then skipped (EOF) at the next acquire",
  "lim=1 " + R('a','g','f',"HTTP/1.1 200 OK\r\ncontent-length: 2\r\n\r\nok",'c') + " " + G('a'))
c("HTTP/1.0 + content-length without keep-alive: not persistent (was pooled and reused before fix 86edf34)",
  "lim=1 " + R('a','g','f',"HTTP/1.0 200 OK\r\ncontent-length: 3\r\n\r\nabc",'k') + " " + G('a'))
L.append("lim=1 " + R('a','g','f',"HTTP/1.0 200 OK\r\ncontent-length: 3\r\nconnection: keep-alive\r\n\r\nabc",'k') + " " + G('a'))
c("HTTP/1.0 + content-length: 0 is an empty body, not read-until-close (before fix 6a58a6d: stray bytes became the body / hang with keep-alive)",
  "lim=1 " + R('a','g','f',"HTTP/1.0 200 OK\r\nContent-Length: 0\r\n\r\n\r\n",'c') + " " + G('a'))
L.append("lim=1 " + R('a','g','f',"HTTP/1.0 200 OK\r\ncontent-length: 0\r\nconnection: keep-alive\r\n\r\n",'k') + " " + G('a'))
c("304 announcing a length it does not send, then close: clean empty body (follow-up fix; test not_modified_spec_h1 /cl-none)",
  "lim=1 " + R('a','g','f',"HTTP/1.1 304 Not Modified\r\ncontent-length: 24\r\n\r\n",'c') + " " + G('a'))
c("KNOWN FINDING: bytes after a 304 with Content-Length are delivered as its body (pinned by not_modified_spec_h1 /cl-body)",
  "lim=1 " + R('a','g','f',"HTTP/1.1 304 Not Modified\r\ncontent-length: 4\r\n\r\n1234",'k') + " " + G('a'))
L.append("lim=1 " + R('a','g','f',"HTTP/1.1 204 No Content\r\ncontent-length: 4\r\n\r\n12",'c') + " " + G('a'))
c("seed C17-r3-1: Expect: 100-continue, interim 100, then a Content-Length / chunked body cut by the close => Incomplete (the bodiless flag is per response head)",
  "lim=1 " + R('a','e','f',["HTTP/1.1 100 Continue\r\n\r\n","HTTP/1.1 200 OK\r\ncontent-length: 10\r\n\r\nabc"],'c') + " " + G('a'))
L.append("lim=1 " + R('a','e','f',"HTTP/1.1 100 Continue\r\n\r\nHTTP/1.1 200 OK\r\ntransfer-encoding: chunked\r\n\r\n5\r\nab",'c') + " " + G('a'))
c("Expect: complete final response after the interim 100: delivered, socket reused; final response without interim: body never sent",
  "lim=1 " + R('a','e','f',["HTTP/1.1 100 Continue\r\n\r\n","HTTP/1.1 200 OK\r\ncontent-length: 2\r\n\r\nok"],'k') + " " + G('a'))
L.append("lim=1 " + R('a','e','f',"HTTP/1.1 200 OK\r\ncontent-length: 2\r\n\r\nok",'c') + " " + G('a'))
c("KNOWN FINDING: `Upgrade: websocket` on a 200 response makes the decoder ignore Content-Length",
  "lim=1 " + R('a','g','f',"HTTP/1.1 200 OK\r\ncontent-length: 3\r\nupgrade: websocket\r\n\r\nabc",'k') + " " + G('a'))
c("KNOWN FINDING: close among several Connection values is not honoured",
  "lim=1 " + R('a','g','f',"HTTP/1.1 200 OK\r\ncontent-length: 3\r\nconnection: keep-alive, close\r\n\r\nabc",'k') + " " + G('a'))
L.append("lim=1 " + R('a','g','f',"HTTP/1.1 200 OK\r\ncontent-length: 3\r\nconnection: close\r\nconnection: keep-alive\r\n\r\nabc",'k') + " " + G('a'))
c("head cut: partial head then close => parse io error; close before any byte => disconnected",
  "lim=1 " + R('a','g','f',"HTTP/1.1 200 O",'c') + " " + R('a','g','f',"",'c'))
c("idle eviction (conn_keep_alive 0) and lifetime eviction: never reused",
  "lim=1 ka=0 %s %s" % (G('a'), G('a')))
L.append("lim=1 life=0 %s %s" % (G('a'), G('a')))
c("HEAD: content-length without body, socket reused; body bytes sent anyway are discarded",
  "lim=1 " + R('a','h','f',"HTTP/1.1 200 OK\r\ncontent-length: 5\r\n\r\n",'k') + " " + G('a'))
L.append("lim=1 " + R('a','h','f',"HTTP/1.1 200 OK\r\ncontent-length: 5\r\n\r\nhello",'k') + " " + G('a'))
c("force_close request: never pooled",
  "lim=1 r:a:c:f:%s.k %s" % (good, G('a')))
c("1-byte segments through a chunked body with extensions",
  "lim=1 " + R('a','g','f',list("HTTP/1.1 200 OK\r\ntransfer-encoding: chunked\r\n\r\n3;x=y\r\nabc\r\nA\r\n0123456789\r\n0\r\n\r\n"),'k') + " " + G('a'))
open("/tmp/w/C17/verif/corpus/C17.cases","w").write("\n".join(L)+"\n")
