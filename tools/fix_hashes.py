#!/usr/bin/env python3
"""tools/fix_hashes.py: the `fixed:` lines in props/Cxx.json were written by work-streams with the
hash a fix: commit had on their scratch branch. Rewrite each to the hash the commit with the same
subject has on /repo's current branch; report lines whose commit is not (or no longer) there."""
import json, os, re, subprocess, glob
ROOT = os.path.join(os.path.dirname(os.path.abspath(__file__)), "..")
def git(*a):
    return subprocess.run(["git", "-C", "/repo"] + list(a), capture_output=True, text=True).stdout
main = {}
for l in git("log", "--format=%h\t%s", "HEAD").splitlines():
    h, s = l.split("\t", 1)
    main.setdefault(s, h)
allc = {}
for l in git("log", "--all", "--format=%h\t%s").splitlines():
    h, s = l.split("\t", 1)
    allc[h] = s
missing = []
for f in sorted(glob.glob(os.path.join(ROOT, "props", "C*.json"))):
    meta = json.load(open(f)); changed = False; out = []
    for line in meta.get("fixed", []):
        m = re.match(r"(fixed: property=\S+ )([0-9a-f]{7,40})( .*)", line)
        if not m:
            out.append(line); continue
        h = m.group(2)[:7]
        subj = allc.get(h) or next((s for k, s in allc.items() if k.startswith(h) or h.startswith(k)), None)
        if subj and subj in main:
            new = m.group(1) + main[subj] + m.group(3)
            changed |= new != line; out.append(new)
        elif h in [x for x in main.values()]:
            out.append(line)
        else:
            missing.append((os.path.basename(f), line[:140])); out.append(line)
    if changed:
        meta["fixed"] = out
        json.dump(meta, open(f, "w"), indent=1, ensure_ascii=False)
for m in missing:
    print("NOT ON /repo HEAD:", m)
print("done")
