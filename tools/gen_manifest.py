#!/usr/bin/env python3
"""Regenerate MANIFEST.json from tools/manifest_src.json (per-property claims) so that the file
is always schema-valid and every claimed property has the same command shape."""
import json, os
ROOT = os.path.join(os.path.dirname(os.path.abspath(__file__)), "..")
src = json.load(open(os.path.join(ROOT, "tools", "manifest_src.json")))
checks = []
for pid, c in sorted(src["claims"].items()):
    checks.append({
        "property_id": pid,
        "quick_cmd": "./check %s --tier quick" % pid,
        "thorough_cmd": "./check %s --tier thorough" % pid,
        "evidence_file": "/verif/evidence/%s.json" % pid,
        "replay_cmd_template": "./check %s --replay {path}" % pid,
        "engine": "lean4-proof+correspondence",
        "level_claimed": {"category": c.get("category", "proof"), "text": c["text"], "design_ref": c.get("design_ref", "DESIGN.md §5 " + pid)},
        "level_note": c["note"],
        "technique": c.get("technique", "Lean 4 kernel-checked theorems over an executable model + differential correspondence (model driver vs real code, in-process) + constants re-extracted from source"),
    })
man = {
    "version": 1,
    "setup_cmd": "cd /verif && python3 tools/gen_consts.py && (cd lean && lake build) && (cd harness && CARGO_NET_OFFLINE=true cargo build --offline)",
    "hooks": {
        "guard": "actix_web_verif",
        "enable": "harness/.cargo/config.toml passes --cfg actix_web_verif to every crate it builds from /repo (no hook is currently needed: every observable is reached through public API)",
        "baseline_off_cmd": "cd /repo && cargo nextest run --workspace --no-fail-fast --test-threads 8 --offline || cargo test --workspace --no-fail-fast --offline",
        "source_commits": [],
        "add_only": True,
    },
    "engines": [{
        "name": "lean4-proof+correspondence", "path": "/verif/check",
        "serves_properties": sorted(src["claims"].keys()),
        "kind_free_text": "Lean 4 theorems (lean/ActixModel/Props) about hand-written executable models (lean/ActixModel/Model), tied to /repo on every run by a differential correspondence harness (harness/, Rust, public API, in-process) and by constants re-extracted from source (tools/gen_consts.py)",
    }],
    "checks": checks,
    "notes": src.get("notes", ""),
    "not_applicable": [{"property_id": p, "reason": r} for p, r in sorted(src.get("not_claimed", {}).items())],
}
json.dump(man, open(os.path.join(ROOT, "MANIFEST.json"), "w"), indent=1, ensure_ascii=False)
print("claimed:", len(checks), "not claimed:", len(man["not_applicable"]))
