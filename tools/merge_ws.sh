#!/bin/sh
# tools/merge_ws.sh <WS>: bring a finished work-stream into /verif (branch wip/<WS>) and list
# its fix: commits (branch fixes/<WS> of /repo) for cherry-picking.
set -e
ws="$1"
cd /verif
git merge --no-ff -m "Merge work-stream $ws" wip/$ws || { echo "MERGE CONFLICT — resolve, then commit"; exit 1; }
python3 tools/gen_manifest.py
echo "--- fix commits on fixes/$ws (cherry-pick into /repo with: git -C /repo cherry-pick <hash>):"
git -C /repo log --oneline main..fixes/$ws || true
