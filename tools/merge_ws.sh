#!/bin/sh
# tools/merge_ws.sh <WS>…: merge finished/milestone work-streams (branch wip/<WS>) into /verif main.
# Generated files (MANIFEST.json, known_findings.json, evidence/*.json) are resolved to "ours" and regenerated.
cd /verif || exit 1
git add -A && git commit -q -m "regenerate manifest" 2>/dev/null
for ws in "$@"; do
  if ! git merge --no-ff -q -m "Merge work-stream $ws" wip/$ws >/dev/null 2>&1; then
    for f in $(git diff --name-only --diff-filter=U); do
      case "$f" in
        MANIFEST.json|known_findings.json|evidence/*.json|lean/ActixModel/Consts.lean) git checkout --ours -- "$f" 2>/dev/null; git add "$f";;
        props/*.json) git checkout --theirs -- "$f" 2>/dev/null; git add "$f";;
        *) echo "UNRESOLVED $ws: $f";;
      esac
    done
    if [ -n "$(git diff --name-only --diff-filter=U)" ]; then echo "merge of $ws needs manual resolution"; exit 1; fi
    git commit -q -m "Merge work-stream $ws"
  fi
  git merge-base --is-ancestor wip/$ws HEAD && echo "merged $ws" || { echo "NOT MERGED $ws"; exit 1; }
done
python3 tools/gen_manifest.py
