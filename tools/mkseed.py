#!/usr/bin/env python3
"""tools/mkseed.py <Cxx> [n]: prepare /tmp/seed/<Cxx>/{repo,out} and the brief for an independent
seeding sub-agent (it gets the property text and its own worktree of /repo; nothing from /verif)."""
import json, sys, os, subprocess
pid = sys.argv[1]; n = sys.argv[2] if len(sys.argv) > 2 else "3"
prop = None
for l in open("/verif/properties.jsonl"):
    p = json.loads(l)
    if p["id"] == pid: prop = p
d = "/tmp/seed/%s" % pid
os.makedirs(d + "/out", exist_ok=True)
if not os.path.exists(d + "/repo"):
    subprocess.check_call(["git", "-C", "/repo", "worktree", "add", "-q", "--detach", d + "/repo", "HEAD"])
t = open("/verif/tools/seed_brief.txt").read()
t = (t.replace("@ID@", pid).replace("@TITLE@", prop["title"]).replace("@STATEMENT@", prop["statement"])
      .replace("@QUANT@", prop["quantifier"]["text"]).replace("@FILES@", ", ".join(prop["anchors"]["files"])).replace("@N@", n))
open(d + "/brief.txt", "w").write(t)
print(d + "/brief.txt")
