#!/bin/sh
# tools/mkws.sh <name>: scratch workspace /tmp/w/<name>/{verif,repo} = git worktrees of /verif and /repo
set -e
n="$1"
mkdir -p /tmp/w/$n
git -C /verif worktree add -q -b wip/$n /tmp/w/$n/verif HEAD
git -C /repo worktree add -q -b fixes/$n /tmp/w/$n/repo HEAD
cp -r /verif/harness/target /tmp/w/$n/verif/harness/target
cp -r /verif/lean/.lake /tmp/w/$n/verif/lean/.lake
echo "workspace /tmp/w/$n ready"
