#!/bin/sh
# tools/mkws2.sh <WS> <branch-suffix>: fresh scratch pair for a follow-up of work-stream <WS>
set -e
n="$1"; b="wip/$1$2"
mkdir -p /tmp/w/$n
git -C /verif worktree add -q -b $b /tmp/w/$n/verif HEAD
git -C /repo worktree add -q --detach /tmp/w/$n/repo main
cp -r /verif/harness/target /tmp/w/$n/verif/harness/target
cp -r /verif/lean/.lake /tmp/w/$n/verif/lean/.lake
echo "workspace /tmp/w/$n ready on $b"
