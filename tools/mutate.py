#!/usr/bin/env python3
"""
tools/mutate.py <Cxx> <file>[:<from>-<to>] [more files…] [--max N] [--seed S] [--tests "<cargo test args>"]

Mechanical mutation testing of a check (supporting tool, not a verification step): in a scratch
workspace /tmp/mut/<Cxx>/{verif,repo} (copies of the committed /verif and a worktree of /repo)
apply one small edit at a time to the given source files (relational operator flips, boolean
operator swaps, off-by-one on literals, dropped call statements, negated conditions), run
`./check Cxx` there, and record:  caught (exit 1 + VIOLATION)  |  survived  |  does-not-compile.
For survivors, optionally run the crate's own tests (`--tests "-p actix-http --lib h1::"`) so that
"survived the check AND the existing tests" can be told apart; those need a human look (many are
equivalent mutants). Results: /tmp/mut/<Cxx>/results.jsonl and a summary on stdout.
"""
import sys, os, re, json, subprocess, random, shutil

def sh(cmd, cwd=None, timeout=3600):
    try:
        p = subprocess.run(cmd, cwd=cwd, shell=isinstance(cmd, str), text=True, capture_output=True, timeout=timeout,
                           env=dict(os.environ, CARGO_NET_OFFLINE="true"), errors="replace")
        return p.returncode, p.stdout + p.stderr
    except subprocess.TimeoutExpired:
        return 124, "timeout"

RULES = [
    (r" >= ", " > "), (r" > ", " >= "), (r" <= ", " < "), (r" < ", " <= "),
    (r" == ", " != "), (r" != ", " == "),
    (r" && ", " || "), (r" \|\| ", " && "),
    (r"\btrue\b", "false"), (r"\bfalse\b", "true"),
    (r" \+ 1\b", " + 0"), (r" - 1\b", " - 0"), (r" \+ 1\b", " + 2"),
    (r"if !", "if "), (r"\bif ([a-z_.]+(\(\))?) \{", r"if !\1 {"),
    (r"\.is_some\(\)", ".is_none()"), (r"\.is_none\(\)", ".is_some()"),
    (r"\.is_empty\(\)", ".len() == 1"),
    (r"\bmin\(", "max("), (r"\bmax\(", "min("),
]
DROP = re.compile(r"^\s*(self\.|[a-z_]+\.)[A-Za-z_.()&*\[\]0-9 ]*\(.*\);\s*$")

def candidates(path, lo, hi):
    lines = open(path).read().split("\n")
    out = []
    in_tests = False
    for i, l in enumerate(lines):
        if re.match(r"\s*(pub(\([a-z]+\))?\s+)?mod tests?\b", l):
            in_tests = True
        if in_tests: break
        if not (lo <= i + 1 <= hi): continue
        st = l.strip()
        if not st or st.startswith("//") or st.startswith("#[") or "debug_assert" in st or "trace!" in st or "log::" in st:
            continue
        code = l.split("//")[0]
        for rx, rep in RULES:
            for m in re.finditer(rx, code):
                new = code[:m.start()] + re.sub(rx, rep, code[m.start():], count=1)
                if new != code:
                    out.append((i, l, new + l[len(code):], "%s→%s" % (rx, rep)))
        if DROP.match(code) and "let " not in code and "return" not in code:
            out.append((i, l, re.sub(r"\S.*$", "// (dropped)", code), "drop-call"))
    return out

def main():
    a = sys.argv[1:]
    pid = a[0].upper()
    files, maxn, seed, tests = [], 40, 1, None
    i = 1
    while i < len(a):
        if a[i] == "--max": maxn = int(a[i + 1]); i += 2
        elif a[i] == "--seed": seed = int(a[i + 1]); i += 2
        elif a[i] == "--tests": tests = a[i + 1]; i += 2
        else: files.append(a[i]); i += 1
    ws = "/tmp/mut/%s" % pid
    if not os.path.exists(ws + "/repo"):
        os.makedirs(ws, exist_ok=True)
        subprocess.check_call(["git", "-C", "/repo", "worktree", "add", "-q", "--detach", ws + "/repo", "HEAD"])
    if not os.path.exists(ws + "/verif"):
        subprocess.check_call("git -C /verif worktree add -q --detach %s/verif HEAD && cp -r /verif/harness/target %s/verif/harness/target && cp -r /verif/lean/.lake %s/verif/lean/.lake" % (ws, ws, ws), shell=True)
    cands = []
    for f in files:
        lo, hi = 1, 10 ** 9
        if ":" in f:
            f, r = f.split(":"); lo, hi = [int(x) for x in r.split("-")]
        for c in candidates(os.path.join(ws, "repo", f), lo, hi):
            cands.append((f,) + c)
    random.Random(seed).shuffle(cands)
    cands = cands[:maxn]
    print("mutants: %d" % len(cands))
    rc, o = sh(["./check", pid], cwd=ws + "/verif")
    if rc != 0:
        print("baseline check fails in scratch workspace:\n" + o[-2000:]); sys.exit(2)
    res = open(ws + "/results.jsonl", "a")
    summary = {"caught": 0, "survived": 0, "nocompile": 0, "survived_tests_pass": 0}
    for (f, i, old, new, rule) in cands:
        p = os.path.join(ws, "repo", f)
        lines = open(p).read().split("\n")
        assert lines[i] == old
        lines[i] = new
        open(p, "w").write("\n".join(lines))
        rc, o = sh(["./check", pid], cwd=ws + "/verif")
        verdict = "caught" if (rc == 1 and "VIOLATION" in o) else ("survived" if rc == 0 else "other")
        if "tie:harness-build" in o or "could not compile" in o:
            # distinguish compile errors of the mutant from real detection
            rc2, o2 = sh("cargo build --offline 2>&1 | tail -5", cwd=ws + "/verif/harness")
            if "could not compile" in o2 or "error" in o2:
                verdict = "nocompile"
        tests_pass = None
        if verdict == "survived" and tests:
            rc3, o3 = sh("CARGO_TARGET_DIR=%s/rt cargo test --offline %s 2>&1 | tail -15" % (ws, tests), cwd=ws + "/repo")
            tests_pass = ("test result: ok" in o3) and ("FAILED" not in o3) and ("error" not in o3.split("test result")[0][-200:])
            if tests_pass: summary["survived_tests_pass"] += 1
        summary[verdict if verdict in summary else "survived"] += 1 if verdict in summary else 0
        viol = [l for l in o.splitlines() if l.startswith("VIOLATION")][:2]
        rec = {"file": f, "line": i + 1, "rule": rule, "old": old.strip(), "new": new.strip(), "verdict": verdict,
               "tests_pass": tests_pass, "violation": viol}
        res.write(json.dumps(rec) + "\n"); res.flush()
        print("%-9s %s:%d  %s   [%s]%s" % (verdict, f, i + 1, old.strip()[:70], rule, "  TESTS-PASS" if tests_pass else ""))
        subprocess.check_call(["git", "-C", ws + "/repo", "checkout", "--", "."])
    print(json.dumps(summary))

if __name__ == "__main__":
    main()
