#!/usr/bin/env python3
"""
tools/seedrun.py <Cxx> [k …]      (supporting tool; not a verification step)

For each independently seeded change /tmp/seed/<Cxx>/out/<k>/{patch.diff,demo.rs,demo.txt,meta.json}:
  A. confirm it in the validation worktree /tmp/val/repo (own target dir, checked out at /repo's HEAD):
       demo passes on the unchanged code; with the patch: builds, the touched crates' existing tests pass,
       the demo fails;
  B. detection: in the scratch pair /tmp/det/<Cxx>/{verif,repo} (committed /verif + /repo HEAD + patch) run
       ./check <Cxx> [and the extra checks given with --also Cyy,Czz] and record exit code / VIOLATION lines;
  C. keep it as /verif/seeded/<Cxx>-<k>/ (patch.diff, demo.rs, demo.txt, meta.json with what was run and seen).
"""
import sys, os, re, json, subprocess, shutil, fcntl

FEATURES = {
    "actix-http": "http2,ws,compress-gzip,compress-brotli,compress-zstd,openssl,rustls-0_23",
    "actix-web": "compress-gzip,compress-brotli,compress-zstd,cookies,secure-cookies,macros",
    "awc": "compress-gzip,compress-brotli,compress-zstd,cookies",
}
ENV = dict(os.environ, CARGO_NET_OFFLINE="true", RUST_BACKTRACE="0")


def sh(cmd, cwd=None, timeout=7200, env=None):
    try:
        p = subprocess.run(cmd, cwd=cwd, shell=True, text=True, capture_output=True, timeout=timeout, env=env or ENV, errors="replace")
        return p.returncode, p.stdout + p.stderr
    except subprocess.TimeoutExpired:
        return 124, "timeout"


def demo_info(d):
    txt = open(os.path.join(d, "demo.txt")).read()
    m = re.search(r"(?:at|to)\s*:?\s+`?([A-Za-z0-9_\-./]+\.rs)`?", txt)
    path = m.group(1) if m else None
    joined = txt.replace("\\\n", " ")
    m = re.search(r"(cargo\s+(?:test|nextest)[^\n]*)", joined)
    cmd = m.group(1).strip().rstrip("`") if m else None
    if cmd:
        cmd = re.sub(r"CARGO_TARGET_DIR=\S+", "", cmd)
    return path, cmd


def validate(pid, k, d, log):
    res = {}
    VAL = os.environ.get("SEEDRUN_VAL", "/tmp/val")
    val = VAL + "/repo"
    tgt = "CARGO_TARGET_DIR=%s/target " % VAL
    lock = open(VAL + "/lock", "w"); fcntl.flock(lock, fcntl.LOCK_EX)
    try:
        sh("git checkout -q --detach main && git checkout -q -- . && git clean -fdq", cwd=val)
        path, cmd = demo_info(d)
        res["demo_path"], res["demo_cmd"] = path, cmd
        if not path or not cmd:
            res["error"] = "could not parse demo.txt"; return res
        dst = os.path.join(val, path)
        os.makedirs(os.path.dirname(dst), exist_ok=True)
        shutil.copy(os.path.join(d, "demo.rs"), dst)
        rc, o = sh(tgt + cmd, cwd=val)
        log.write("== demo without change rc=%d\n%s\n" % (rc, o[-3000:]))
        res["demo_without_change"] = "passes" if rc == 0 else "FAILS rc=%d" % rc
        rc, o = sh("git apply %s" % os.path.join(d, "patch.diff"), cwd=val)
        if rc != 0:
            res["error"] = "patch does not apply to /repo HEAD: " + o[-300:]; return res
        rc, o = sh(tgt + cmd, cwd=val)
        log.write("== demo with change rc=%d\n%s\n" % (rc, o[-3000:]))
        res["demo_with_change"] = "fails" if rc != 0 and "could not compile" not in o else ("PASSES" if rc == 0 else "DOES NOT COMPILE")
        os.remove(dst)
        crates = sorted({l.split("/")[1] if l.startswith("a/") else l.split("/")[0]
                         for l in re.findall(r"^--- (a/\S+)", open(os.path.join(d, "patch.diff")).read(), re.M)})
        tests = {}
        for c in crates:
            feat = FEATURES.get(c)
            cmdt = tgt + "cargo nextest run --offline --no-fail-fast -p %s %s --test-threads 6" % (c, "--features " + feat if feat else "")
            rc, o = sh(cmdt, cwd=val, timeout=5400)
            summ = [l.strip() for l in o.splitlines() if "Summary" in l]
            failed = sorted(set(re.findall(r"FAIL \[[^\]]*\]\s+\(?[^)]*\)?\s*(\S+ \S+)", o)))
            if rc != 0 and failed:
                # retry the failing tests once (load-induced time-outs are common on the shared box)
                names = " | ".join("test(%s)" % f.split()[-1].split("::")[-1] for f in failed[:12])
                rc2, o2 = sh(tgt + "cargo nextest run --offline --no-fail-fast -p %s %s --test-threads 2 -E '%s'" % (c, "--features " + feat if feat else "", names), cwd=val, timeout=3600)
                still = sorted(set(re.findall(r"FAIL \[[^\]]*\]\s+\(?[^)]*\)?\s*(\S+ \S+)", o2)))
                tests[c] = {"cmd": cmdt.replace(tgt, ""), "summary": summ[-1:] , "failed_first_run": failed, "failed_after_retry": still}
            else:
                tests[c] = {"cmd": cmdt.replace(tgt, ""), "summary": summ[-1:], "failed_first_run": failed, "failed_after_retry": failed}
            log.write("== tests %s rc=%d %s\n" % (c, rc, summ[-1:]))
        rc, o = sh(tgt + "cargo build --workspace --offline 2>&1 | tail -3", cwd=val)
        res["workspace_builds"] = "error" not in o
        res["existing_tests"] = tests
        return res
    finally:
        sh("git checkout -q -- . && git clean -fdq", cwd=val)
        fcntl.flock(lock, fcntl.LOCK_UN)


def detect(pid, k, d, checks, log):
    ws = "/tmp/det/%s" % pid
    if not os.path.exists(ws + "/repo"):
        os.makedirs(ws, exist_ok=True)
        subprocess.check_call(["git", "-C", "/repo", "worktree", "add", "-q", "--detach", ws + "/repo", "HEAD"])
    if not os.path.exists(ws + "/verif"):
        subprocess.check_call("git -C /verif worktree add -q --detach %s/verif HEAD && cp -r /verif/harness/target %s/verif/harness/target && cp -r /verif/lean/.lake %s/verif/lean/.lake" % (ws, ws, ws), shell=True)
    sh("git checkout -q --detach main && git checkout -q -- . && git clean -fdq", cwd=ws + "/repo")
    sh("git checkout -q --detach main && git checkout -q -- .", cwd=ws + "/verif")
    rc, o = sh("git apply %s" % os.path.join(d, "patch.diff"), cwd=ws + "/repo")
    out = {}
    if rc != 0:
        # the tree moved on since the change was seeded (later fix: commits): try a 3-way application
        rc, o = sh("git apply --3way %s && git reset -q" % os.path.join(d, "patch.diff"), cwd=ws + "/repo")
    if rc != 0:
        return {"error": "patch does not apply: " + o[-200:]}
    for c in checks:
        rc, o = sh("./check %s" % c, cwd=ws + "/verif", timeout=5400)
        viol = [l for l in o.splitlines() if l.startswith("VIOLATION")]
        summ = [l for l in o.splitlines() if re.match(r"C\d+ tier=", l)]
        replay = None
        if viol:
            m = re.search(r"replay=(\S+)", viol[0])
            if m and os.path.exists(m.group(1)):
                replay = open(m.group(1)).read()[:1500]
        out[c] = {"exit": rc, "violations": viol[:3], "summary": summ[-1:], "first_replay": replay,
                  "verdict": ("caught-with-failing-input" if viol and not all("no-failing-input-found" in v for v in viol)
                              else "caught-no-failing-input" if viol else "MISSED")}
        log.write("== check %s rc=%d %s\n" % (c, rc, viol[:2]))
    sh("git checkout -q -- . && git clean -fdq", cwd=ws + "/repo")
    return out


def main():
    a = sys.argv[1:]
    pid = a[0].upper()
    also, ks, detect_only = [], [], False
    recheck = False
    base_root, tag = "/tmp/seed", ""
    i = 1
    while i < len(a):
        if a[i] == "--also": also = a[i + 1].split(","); i += 2
        elif a[i] == "--base": base_root = a[i + 1]; i += 2
        elif a[i] == "--tag": tag = a[i + 1] + "-"; i += 2
        elif a[i] == "--detect-only": detect_only = True; i += 1
        elif a[i] == "--recheck": detect_only = True; recheck = True; i += 1
        else: ks.append(a[i]); i += 1
    base = "%s/%s/out" % (base_root, pid)
    if not ks:
        ks = sorted(x for x in os.listdir(base) if os.path.exists(os.path.join(base, x, "patch.diff")))
    os.makedirs("/tmp/det", exist_ok=True)
    for k in ks:
        d = os.path.join(base, k)
        log = open("/tmp/det/%s-%s.log" % (pid, k), "w")
        meta = {}
        try: meta = json.load(open(os.path.join(d, "meta.json")))
        except Exception: pass
        if detect_only:
            old = json.load(open("/verif/seeded/%s-%s%s/meta.json" % (pid, tag, k)))
            v = old.get("confirmed_by_orchestrator", {})
            if recheck:
                det = old.get("detection", {})
                old["detection_after_strengthening"] = detect(pid, k, d, [pid], log)
                old["strengthened_at_verif_commit"] = subprocess.run(["git", "-C", "/verif", "rev-parse", "--short", "HEAD"], capture_output=True, text=True).stdout.strip()
                meta.update({k2: old[k2] for k2 in ("detection_after_strengthening", "strengthened_at_verif_commit")})
            else:
                det = dict(old.get("detection", {}), **detect(pid, k, d, also, log))
        else:
            v = validate(pid, k, d, log)
            det = detect(pid, k, d, [pid] + also, log)
        dst = "/verif/seeded/%s-%s%s" % (pid, tag, k)
        os.makedirs(dst, exist_ok=True)
        for f in ("patch.diff", "demo.rs", "demo.txt"):
            if os.path.exists(os.path.join(d, f)): shutil.copy(os.path.join(d, f), dst)
        meta["seeded_by"] = "independent sub-agent given only the property text and its own worktree of /repo"
        meta["confirmed_by_orchestrator"] = v
        meta["detection"] = det
        meta["repo_head_at_confirmation"] = subprocess.run(["git", "-C", "/repo", "rev-parse", "--short", "HEAD"], capture_output=True, text=True).stdout.strip()
        json.dump(meta, open(os.path.join(dst, "meta.json"), "w"), indent=1, ensure_ascii=False)
        print("%s-%s: demo without=%s with=%s | tests=%s | %s" % (
            pid, k, v.get("demo_without_change"), v.get("demo_with_change"),
            {c: (t["summary"], t["failed_after_retry"]) for c, t in v.get("existing_tests", {}).items()},
            ({c: r.get("verdict") for c, r in det.items()} if "error" not in det else det),
            ) + (" | after strengthening: %s" % {c: r.get("verdict") for c, r in meta.get("detection_after_strengthening", {}).items()} if meta.get("detection_after_strengthening") else ""))
        sys.stdout.flush()
    # free the scratch pair of this property (disk is limited)
    ws = "/tmp/det/%s" % pid
    sh("git -C /verif worktree remove --force %s/verif; git -C /repo worktree remove --force %s/repo; rm -rf %s" % (ws, ws, ws))


if __name__ == "__main__":
    main()
