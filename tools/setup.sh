#!/bin/sh
# MANIFEST.setup_cmd: build everything from files on disk (offline).
set -e
cd "$(dirname "$0")/.."
python3 tools/gen_consts.py
mods=$(ls lean/ActixModel/Props/*.lean 2>/dev/null | sed 's|.*/\(C[0-9]*\)\.lean|ActixModel.Props.\1|')
(cd lean && lake build ActixModel actix_model_driver $mods)
(cd harness && CARGO_NET_OFFLINE=true cargo build --offline)
